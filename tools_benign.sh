#!/bin/bash
# usage: tools_benign.sh [dir with rfNN.diff]   -- every behaviour-preserving patch must leave all checks silent.
# Applies each patch to /repo, runs ./check --all, reverts. Do not run while another check is running.
cd /verif
D=${1:-/verif/benign/RF}
for f in $D/rf*.diff; do
  n=$(basename $f .diff)
  git -C /repo apply --check $f 2>/dev/null || { echo "$n NOAPPLY"; continue; }
  git -C /repo apply $f
  out=$(./check --all --no-evidence 2>/dev/null | grep -E "^VIOLATION" -A1 | grep "instance=" | cut -c1-260)
  git -C /repo checkout -- . ; git -C /repo clean -fdq crates 2>/dev/null
  if [ -z "$out" ]; then echo "$n silent"; else echo "$n ALARM"; echo "$out"; fi
done
