#!/usr/bin/env python3
"""Regenerate MANIFEST.json from the table below (keeps it valid at all times)."""
import json, os
HERE = os.path.dirname(os.path.abspath(__file__))
BASE = ("cd /repo && cargo nextest run --workspace --no-fail-fast --tool-config-file pb:/w/lib/nextest.toml "
        "--profile pb --test-threads 8 --offline")

CLAIMED = {}   # id -> (technique, level text, level_note, design_ref)
NA = {}        # id -> reason


def claim(pid, technique, text, note, ref):
    CLAIMED[pid] = (technique, text, note, ref)


def na(pid, reason):
    NA[pid] = reason


exec(open(os.path.join(HERE, 'manifest_table.py')).read())

checks = []
for pid in sorted(CLAIMED):
    tech, text, note, ref = CLAIMED[pid]
    checks.append({
        'property_id': pid,
        'quick_cmd': './check %s --tier quick' % pid,
        'thorough_cmd': './check %s --tier thorough' % pid,
        'evidence_file': '/verif/evidence/%s.json' % pid,
        'replay_cmd_template': './check %s --replay {path}' % pid,
        'engine': 'tprules',
        'level_claimed': {'category': 'other', 'text': text, 'design_ref': ref},
        'level_note': note,
        'technique': tech,
    })
m = {
    'version': 1,
    'setup_cmd': 'cd /verif/tpfacts && CARGO_NET_OFFLINE=true cargo +nightly build --release --offline && cd /verif && ./check --warm',
    'hooks': {
        'guard': 'trust_platform_verif',
        'enable': 'none needed: the analysis reads /repo through the compiler (rustc_private driver as RUSTC_WORKSPACE_WRAPPER); no instrumentation is compiled into the repository',
        'baseline_off_cmd': BASE,
        'source_commits': [],
        'add_only': True,
    },
    'engines': [
        {'name': 'tpfacts', 'path': '/verif/tpfacts', 'serves_properties': sorted(CLAIMED),
         'kind_free_text': 'rustc_private driver (nightly) run as RUSTC_WORKSPACE_WRAPPER under cargo check: dumps MIR CFGs with resolved callees, type-checked HIR match tables, ADTs, trait impls as JSON facts'},
        {'name': 'tprules', 'path': '/verif/tprules', 'serves_properties': sorted(CLAIMED),
         'kind_free_text': 'python3 rule engine: call graph, dominators, gates as edge cuts, pairing with boolean-flag refinement, local taint/provenance, field write sets, table extraction, loops; repository-specific rules per property'},
    ],
    'checks': checks,
    'not_applicable': [{'property_id': k, 'reason': v} for k, v in sorted(NA.items())],
    'notes': 'Static analysis only: no check runs the system under test. Exit 0 = every rule instance held or only listed known findings fired; exit 1 = unlisted violation; exit 2 = infrastructure failure (tree does not build).',
}
with open(os.path.join(HERE, 'MANIFEST.json'), 'w') as f:
    json.dump(m, f, indent=1)
print('MANIFEST.json: %d checks, %d not_applicable' % (len(checks), len(NA)))
