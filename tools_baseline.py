#!/usr/bin/env python3
"""Regenerate /verif/baseline_fns.json: the function ids of the tree the rules were written against
(run only when the rules have been re-confirmed on a new reference tree; never at check time)."""
import json, os, sys
sys.path.insert(0, os.path.dirname(os.path.abspath(__file__)))
from tprules import facts, gen
d, info = gen.facts_dir('default')
fx = facts.load(d)
ids = sorted(k for k, r in fx.fns.items() if r.get('kind') != 'Closure')
sigs = {k: fx.fns[k]['locals'][:fx.fns[k]['argc'] + 1] for k in ids}
# callee sets (own closures included): used to recognise a baseline function that was merely renamed
callees = {}
for k in ids:
    cs = set()
    for rid in [k] + list(fx.closures_of(k)):
        r = fx.fns.get(rid)
        if r is None:
            continue
        for bb in r['bbs']:
            t = bb['t']
            if t['k'] == 'call' and not bb['c']:
                n = t['f'].get('inst') or t['f'].get('def')
                if n:
                    cs.add(n)
    if cs:
        callees[k] = sorted(cs)
with open(os.path.join(gen.VERIF, 'baseline_fns.json'), 'w') as f:
    json.dump({'tree_hash': info['tree_hash'], 'repo_head': os.popen('git -C /repo rev-parse --short HEAD').read().strip(), 'functions': ids, 'signatures': sigs, 'callees': callees}, f)
print(len(ids), 'functions')
