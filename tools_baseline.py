#!/usr/bin/env python3
"""Regenerate /verif/baseline_fns.json: the function ids of the tree the rules were written against
(run only when the rules have been re-confirmed on a new reference tree; never at check time)."""
import json, os, sys
sys.path.insert(0, os.path.dirname(os.path.abspath(__file__)))
from tprules import facts, gen
d, info = gen.facts_dir('default')
fx = facts.load(d)
ids = sorted(k for k, r in fx.fns.items() if r.get('kind') != 'Closure')
sigs = {k: fx.fns[k]['locals'][:fx.fns[k]['argc'] + 1] for k in ids}
with open(os.path.join(gen.VERIF, 'baseline_fns.json'), 'w') as f:
    json.dump({'tree_hash': info['tree_hash'], 'repo_head': os.popen('git -C /repo rev-parse --short HEAD').read().strip(), 'functions': ids, 'signatures': sigs}, f)
print(len(ids), 'functions')
