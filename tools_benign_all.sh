#!/bin/bash
# usage: tools_benign_all.sh   -- all benign batteries on scratch copies, four processes; results in /tmp/seed/benign_all_*.log
# (every line must read "silent"; do not change /repo's working tree during the first minute, while the base copies are made)
cd /verif
for d in RF RF2 RF3 RF5; do
  TP_SCRATCH=/var/tmp/tpv-benign-$d nohup python3 tools_benign_scratch.py benign/$d > /tmp/seed/benign_all_$d.log 2>/tmp/seed/benign_all_$d.err &
done
( for d in BH RF4; do TP_SCRATCH=/var/tmp/tpv-benign-$d python3 tools_benign_scratch.py benign/$d; done ) > /tmp/seed/benign_all_BH.log 2>/tmp/seed/benign_all_BH.err &
wait
