#!/bin/bash
# usage: tools_mut.sh <patch.diff> <prop> [more props]  -- apply a seeded patch to /repo, run checks, undo
set -u
P=$1; shift
git -C /repo apply "$P" || { echo "APPLY FAILED"; exit 3; }
for prop in "$@"; do
  ./check $prop --no-evidence 2>/dev/null | grep -E "^VIOLATION|^  |KNOWN|unlisted" | cut -c1-400
done
git -C /repo checkout -- . 
git -C /repo status --short | head -3
