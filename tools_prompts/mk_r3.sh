#!/bin/bash
# usage: mk_r3.sh Cxx  -> /tmp/seed/Cxx-r3.prompt.txt and worktree /tmp/wt/Cxxr3
P=$1
python3 - "$P" <<'PY'
import sys,json,glob,re
P=sys.argv[1]
s=open('/tmp/seed/%s.prompt.txt'%P).read()
s=s.replace('/tmp/wt/%s'%P,'/tmp/wt/%sr3'%P).replace('/tmp/seed/%s/'%P,'/tmp/seed/%s-r3/'%P)
used=[]
for d in sorted(glob.glob('/verif/seeded/%s-m*/meta.json'%P)):
    try:
        m=json.load(open(d)); used.append('- '+re.sub(r'\s+',' ',m.get('summary',''))[:400])
    except Exception as e: pass
s+='\n\nAlready used in an earlier round (do NOT repeat these or close variants; pick different functions and different mechanisms, ideally in other files among the relevant ones):\n'+'\n'.join(used)+'\n'
open('/tmp/seed/%s-r3.prompt.txt'%P,'w').write(s)
print(len(s))
PY
mkdir -p /tmp/seed/$P-r3
git -C /repo worktree add -q --detach /tmp/wt/${P}r3 HEAD && echo "worktree /tmp/wt/${P}r3"
