# One entry per property. `claim(id, technique, level text, trusted base / assumptions, DESIGN ref)` or `na(id, reason)`.
_TB = ('Trusted: rustc nightly MIR/HIR construction and type resolution, the tpfacts fact printer, the tprules primitives; '
       'external crates are opaque (documented behaviour assumed); analysed build = default features, non-test, host target. '
       'A pass means the named structural clauses hold on every path/row; it does not establish the value-level behaviour.')

claim('C18', 'table agreement + call-graph effect analysis + gate dominance (edge cuts) over rustc MIR/HIR',
      'Exact for the clauses decided: all 53 dispatched request types vs the required-role table and the debug set (exhaustive row comparison), '
      'effect sets of every Viewer-level handler over the whole call graph, gate order/arguments in the single gate function by edge-cut dominance, '
      'who-may-call for dispatcher and handlers, role ordering, authentication shape. This quantifies over every request string and credential at once, which sampling tests cannot.',
      _TB, 'DESIGN.md section 4 / C18')

claim('C19', 'gate dominance (edge cuts) + path-argument provenance + walk/resolver symlink rules + lock-region ordering over rustc MIR',
      'Exact for the clauses decided: all 9 fs mutation sites in the web IDE are dominated by write_enabled and the editor-session gate; all 17 fs call sites take paths from the resolver (or walk-vetted names); walks and resolver do not follow symlinks; normaliser table rejects hidden/parent/root/prefix components; apply_source checks version, writes and bumps under one lock region. Path-string and session quantifiers are covered because the rules hold on every CFG path; interleavings are covered only through the lock-region clause.',
      _TB, 'DESIGN.md section 4 / C19')

claim('C01', 'path-sensitive acquire/release pairing + arithmetic-assert discharge + reachable-panic table + loop/budget SCC rule + table agreement over rustc MIR/HIR',
      'Partial: decides frame push/pop and debug-hook take/restore pairing on every CFG exit of the 5 pushing functions; discharges or reviews every one of the ~130 overflow/neg/div-by-zero assert sites in the evaluator core; freezes the 28 explicit panic sites reachable from execute_cycle; budget check in every interpreter loop and FOR step-zero gate; checker/lowering/interpreter CASE selector tables; compile gate on parse errors and error diagnostics. Not decided: termination of user loops, stack depth of user recursion, implicit bounds checks, full checker/lowering agreement.',
      _TB, 'DESIGN.md section 4 / C01')

claim('C07', 'dominance / must-pass / loop-structure rules on the cycle CFG + who-may-call over the call graph + codec table agreement',
      'Claimed for order/once/who: input latch dominates scheduling and all program code, publication after all program code and on every Ok path, once per cycle and once per driver, only the two cycle I/O functions (and safe state, composite drivers) call drivers, no publication after a fault record. Codec clauses: little-endian both ways, per-size span agreement, read-modify-write bit access, mutually inverse coercion tables. Locality for arbitrary overlapping bindings and located-array element offsets are value-level and not decided.',
      _TB, 'DESIGN.md section 4 / C07')
claim('C08', 'dominance / must-pass-through on error edges + decision tables + loop exit-edge analysis + field write sets + who-may-call',
      'Claimed: latch test dominates the cycle; every sub-step error edge passes record_fault; all fault entry points pass apply_fault; safe state iff decision flag and before the unconditional latch; decision tables; delivery loops have no early exit; only record/clear touch the latch and only restart/clear_fault clear it; resource loops mark Faulted only after the fault routine. Not decided: type-correctness of safe values.',
      _TB, 'DESIGN.md section 4 / C08')

claim('C10', 'system-call ordering by dominance on success edges + path-argument provenance + codec table agreement + local taint to allocation sinks + recursion-guard analysis',
      'Claimed for protocol, tables and taint: the save routine follows create-temp -> write_all -> fsync -> rename(temp, final) on every path to Ok and never truncates the final path (crash points are covered because the ordering is a dominance fact over every path); encoder/decoder agree on tag and width sequence for all 31 value variants and on the string framing; file-derived counts never size an allocation; decoder recursion is depth-bounded; reader primitives bounds-check; save bookkeeping only after store() succeeded. Not decided: value equality of round trips beyond shape, directory fsync.',
      _TB, 'DESIGN.md section 4 / C10')

claim('C11', 'local taint to allocation sinks + arithmetic-assert discharge with interprocedural argument widths + recursion-guard analysis + gate dominance on the apply path + index/bounds rules',
      'Partial: container-derived counts never size an allocation (29 sinks); every decode-side arithmetic site with a container-derived or fixed-width operand is discharged by width/guard or reviewed; every decode-side recursion cycle has a depth bound; apply path is decode -> validate -> metadata -> apply on success edges; container-derived indexes are length-checked on the dominating path; reader primitives bounds-check and every read goes through them. Not decided: byte-exact round trip, that validated containers are semantically safe, opcode operand width agreement (planned for the thorough tier).',
      _TB, 'DESIGN.md section 4 / C11')

claim('C20', 'lock-region ordering by dominance + loop SCC analysis on the stop/pause flags + condvar protocol rules + sibling call-set comparison',
      'Partial: copy-in -> cycle -> copy-back inside one SharedGlobals::with_lock closure (order and exactly-once by dominance/must-pass), shared map reachable only through the lock; cycle site behind paused == false; every repeating path re-tests the stop flag; stop branch saves once, marks Stopped, leaves; every thread exit marks Stopped/Faulted; wait-in-loop, (lock, write, notify_all) wakers and no waiter consuming the broadcast flag; the two sibling loops make the same calls. Fairness and lost wake-ups under arbitrary OS schedules are not decided.',
      _TB, 'DESIGN.md section 4 / C20')

claim('C17', 'condvar typestate exploration with boolean-flag refinement + who-may-call + hook dominance/argument provenance + step-table comparison direction + loop analysis of the adapter stop loop',
      'Partial: waits sit in a loop that re-reads DebugState and branches only on state read after waking; every resume path reaches notify_all (path-sensitive on the notify flag); deferred writes are drained only at cycle boundaries and never from statement execution; the hook precedes dispatch with stmt.location() and ctx.call_depth; hook object, Runtime.debug and call_depth are restored on every path; into/over/out comparison direction and out = depth-1; one emit_stop per pause; adapter stop loop must emit/resume (known finding F23). Interleavings and watch-expression side effects are not decided.',
      _TB, 'DESIGN.md section 4 / C17')

claim('C14', 'unit-discipline provenance rules on Position/SemanticToken construction + column-accumulator rule + paired-write/lock-region dominance rules',
      'Partial: every column accumulator advances by char::len_utf16 and no Position.character or token length derives from a byte offset or char count (UTF-16 contract); Document.content and the analysed text are written together under one lock region only by the three sync functions, with is_open re-checked inside the region; incremental changes are applied only at resolved positions behind the end <= len guard and did_change stores the applied text. The change-sequence semantics and char-boundary safety of slices are not decided.',
      _TB, 'DESIGN.md section 4 / C14')

claim('C09', 'sibling agreement on field read sets + field write sets closed over the call graph (cycle vs restart) + who-mints/who-rebinds reachability + must-pass rules',
      'Partial: warm restart vs retain snapshot/apply agree on the retained declaration sources (known finding F9); every runtime-state field the cycle can write is written or re-created by restart or exempted with a reason (known finding F10 for the process image); a re-minting function must rebuild the instance-reference tables (known finding F8); policy table and retainability filter shared; operator restart is followed by load_retain_store before the next cycle; restart seeds task state like register_task and resets clock, frames, latch, cycle counter and save cadence. Values after restart are not decided.',
      _TB, 'DESIGN.md section 4 / C09')

claim('C12', 'path-sensitive event pairing over every grammar function + drop-elaboration rule for markers + 1:1 token accounting rules + call-graph purity + recursion-guard analysis',
      'Partial: no Marker can be dropped uncompleted and every start_node is matched by finish_node on every path of all 49 node-opening grammar functions (an unbalanced stream panics the tree builder); token events, source cursor and sink output advance 1:1 and the sink emits exactly source[token.range]; trivia flushed before every token/finish; parse/lex reach no ambient state; all three grammar recursion components are depth-guarded; ParseError ranges come from the current token. Termination of recovery loops, tiling of lexer ranges and trivia-insertion invariance are not decided.',
      _TB, 'DESIGN.md section 4 / C12')

claim('C05', 'call-graph reachability over three crates + order-revealing hash-container rule + ambient-source rule with reviewed table',
      'Claimed: in the 4 900 local bodies reachable (over-approximately, including salsa tracked functions and fn-pointer dispatch) from compile, encode and execute_cycle there is no iteration over a randomly seeded hash container, no clock/env/RNG/thread-id/address source outside the 13 reviewed sites, and the encoder iterates ordered containers only. Two processes therefore cannot differ through those channels. Float formatting and external crates are not decided.',
      _TB, 'DESIGN.md section 4 / C05')
claim('C06', 'sort-key extraction from closure MIR + dominance/loop rules on the scheduling loop + sibling agreement',
      'Partial: the ready list is sorted by exactly (priority, due time, declaration index); scheduling precedes the task loop, tasks precede background programs, each ready entry and each program/FB of a task runs once; a task is queued at most once per cycle; edge memory is written on every iteration path from this cycle\'s sample, period memory only under the periodic condition and set to now (no replay), overruns saturate; background set agrees between its two computations. The due-ness arithmetic (>=, elapsed) is not decided.',
      _TB, 'DESIGN.md section 4 / C06')

claim('C13', 'call-graph purity of salsa tracked bodies + field write sets and must-pass rules on the file-set mutators + persistent-container iteration table',
      'Partial: all 8 tracked query bodies reach no clock/env/fs/RNG and receive only &dyn salsa::Database; Database.sources is written only by set_source_text/remove_source_text, each of which bumps the revision and updates the salsa-side table and synced_revision on every changing path; the project file list is sorted by FileId before it becomes a salsa input; every iteration over a persistent hash container is sorted, order-insensitive or a reviewed exposure; no RandomState iteration in trust_hir. Equality of incremental and fresh answers itself is not decided.',
      _TB, 'DESIGN.md section 4 / C13')

claim('C03', 'coercion table extraction (type-checked HIR) + value-provenance classification of every storage mutator call against a frozen table',
      'Partial: every coercion table arm builds the value class of its declared type/template and every elementary type has an explicit arm; the stores that have a coercion (FOR control, typed I/O latch, initialisers) still pass through it; all 61 calls of the five storage mutators are classified by the provenance of the stored value (coerced / default / fresh instance / typed literal / same slot / external / uncoerced) against a frozen table, so a new store site or a coerced site becoming uncoerced is reported. The 12 uncoerced expression stores are a genuine design-level defect (known finding F4). Value ranges, element types and alias resolution are not decided.',
      _TB, 'DESIGN.md section 4 / C03')

claim('C04', 'saturation-guard discharge on every counter site + argument provenance (instance locality) + call-graph clock rule + must-pass write-back rules',
      'Thin: all 68 counter +/-1 sites are behind their saturation guard; all 89 state accesses of the builtin FBs use the call\'s own instance id and no global/static storage; no OS clock is reachable and elapsed time is ctx.now minus the instance\'s own last-call time (written only from ctx.now); every state variable an FB reads (and every output) is written back on every successful path, edge memory from this call\'s sample; RS/SR test their dominant input first. Q/ET values against the IEC diagrams and boundary equalities are value-level and not decided.',
      _TB, 'DESIGN.md section 4 / C04')

claim('C02', 'operator/precedence table extraction (type-checked HIR) + arm-wise machine-operation agreement + edge-cut control-dependence (short circuit) + loop SCC placement/polarity rules over rustc MIR',
      'Thin: decides the structural clauses only. Operator token tables of lowering and type checker agree (one known finding, F26: `&` unknown to the checker); in the arithmetic/compare kernels the arm of operator X computes with machine operation X; integer results are built only through the widen -> try_from range-check constructors; the right operand of AND/OR is control-dependent on the left value with the IEC polarity; WHILE tests before the body, REPEAT after, with the right polarity, and re-tests on every iteration; FOR rejects step 0, tests before each iteration, leaves only on strict passing of the end value in the direction of the step, and increments on every way back (also CONTINUE); binding powers order the operator classes per the spec; output parameters are written back after the callee frame is popped. Numerical agreement with a reference evaluator on all programs/inputs is value-level and not decided.',
      _TB, 'DESIGN.md section 4 / C02')

claim('C16', 'gate dominance (edge cuts) on every edit-producing path + who-may-call + value provenance of edit range/text + conflict-test scope coverage over rustc MIR',
      'Thin: decides the structural clauses only. Every rename edit (rename_symbol, rename_field, namespace move) is behind is_valid_identifier, is_reserved_keyword and the conflict test on every path; only `rename` enters the edit-producing functions (whole workspace call graph incl. LSP, web IDE, wasm); an edit range is exactly a Reference.range returned by the reference search and its text exactly the validated new name; the conflict test resolves the new name through enclosing scopes and inspects nested scopes (F27, fixed). Equality of diagnostics and behaviour after the rename, completeness of the reference search and exact reversibility are value-level and not decided.',
      _TB, 'DESIGN.md section 4 / C16')

_PENDING = 'check not built yet in this commit (work in progress; see DESIGN.md section 10 for the build order)'
na('C15', 'formatting token-sequence preservation and idempotence are equalities between values computed by string manipulation; no shape-of-code fact is a necessary condition that a realistic breaking edit would violate (DESIGN.md section 5)')
