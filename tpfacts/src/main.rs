#![feature(rustc_private)]
#![allow(unused)]
extern crate rustc_abi;
extern crate rustc_driver;
extern crate rustc_hir;
extern crate rustc_interface;
extern crate rustc_middle;
extern crate rustc_span;
extern crate rustc_session;

use rustc_driver::{Callbacks, Compilation};
use rustc_hir as hir;
use rustc_hir::def::{DefKind, Res};
use rustc_hir::def_id::{DefId, LocalDefId, LOCAL_CRATE};
use rustc_hir::intravisit::{self, Visitor};
use rustc_interface::interface::Compiler;
use rustc_middle::mir::{
    self, AggregateKind, AssertKind, BasicBlock, Body, Const, Operand, Place, ProjectionElem,
    Rvalue, StatementKind, TerminatorKind,
};
use rustc_middle::ty::{self, Ty, TyCtxt, TypingEnv};
use rustc_span::Span;
use std::fmt::Write as _;
use std::io::Write as _;

fn esc(s: &str) -> String {
    let mut o = String::with_capacity(s.len() + 2);
    o.push('"');
    for c in s.chars() {
        match c {
            '"' => o.push_str("\\\""),
            '\\' => o.push_str("\\\\"),
            '\n' => o.push_str("\\n"),
            '\r' => o.push_str("\\r"),
            '\t' => o.push_str("\\t"),
            c if (c as u32) < 0x20 => { let _ = write!(o, "\\u{:04x}", c as u32); }
            c => o.push(c),
        }
    }
    o.push('"');
    o
}

struct Cx<'tcx> {
    tcx: TyCtxt<'tcx>,
    krate: String,
    cache: std::cell::RefCell<std::collections::HashMap<DefId, String>>,
}

impl<'tcx> Cx<'tcx> {
    fn path(&self, did: DefId) -> String {
        if let Some(s) = self.cache.borrow().get(&did) { return s.clone(); }
        let s = self.path_uncached(did);
        self.cache.borrow_mut().insert(did, s.clone());
        s
    }
    fn path_uncached(&self, did: DefId) -> String {
        use rustc_middle::ty::print::{with_crate_prefix, with_no_trimmed_paths, with_no_visible_paths};
        let p = with_no_visible_paths!(with_crate_prefix!(with_no_trimmed_paths!(self.tcx.def_path_str(did))));
        p.replace("crate::", &format!("{}::", self.krate))
    }
    fn line(&self, sp: Span) -> (String, usize, usize) {
        let sm = self.tcx.sess.source_map();
        let lo = sm.lookup_char_pos(sp.lo());
        let hi = sm.lookup_char_pos(sp.hi());
        (format!("{}", lo.file.name.prefer_local_unconditionally()), lo.line, hi.line)
    }
    fn disp<T: std::fmt::Display>(&self, t: T) -> String {
        use rustc_middle::ty::print::{with_crate_prefix, with_no_trimmed_paths, with_no_visible_paths};
        let p = with_no_visible_paths!(with_crate_prefix!(with_no_trimmed_paths!(format!("{}", t))));
        p.replace("crate::", &format!("{}::", self.krate))
    }
    fn ty(&self, t: Ty<'tcx>) -> String {
        use rustc_middle::ty::print::{with_crate_prefix, with_no_trimmed_paths, with_no_visible_paths};
        let p = with_no_visible_paths!(with_crate_prefix!(with_no_trimmed_paths!(format!("{}", t))));
        p.replace("crate::", &format!("{}::", self.krate))
    }

    fn place(&self, body: &Body<'tcx>, p: &Place<'tcx>) -> String {
        let mut s = format!("[{},[", p.local.as_usize());
        let mut cur = mir::PlaceTy::from_ty(body.local_decls[p.local].ty);
        let mut first = true;
        for elem in p.projection.iter() {
            if !first { s.push(','); }
            first = false;
            match elem {
                ProjectionElem::Deref => s.push_str("\"*\""),
                ProjectionElem::Field(f, _) => {
                    let mut name = format!("{}", f.as_usize());
                    if let ty::Adt(adt, _) = cur.ty.kind() {
                        let v = match cur.variant_index { Some(v) => v, None => rustc_abi::FIRST_VARIANT };
                        if adt.variants().len() > v.as_usize() {
                            let vd = adt.variant(v);
                            if vd.fields.len() > f.as_usize() {
                                name = format!("{}.{}", self.path(adt.did()), vd.fields[f].name);
                            }
                        }
                    }
                    let _ = write!(s, "[\"f\",{}]", esc(&name));
                }
                ProjectionElem::Downcast(sym, v) => {
                    let n = sym.map(|x| x.to_string()).unwrap_or(format!("{}", v.as_usize()));
                    let _ = write!(s, "[\"d\",{}]", esc(&n));
                }
                ProjectionElem::Index(l) => { let _ = write!(s, "[\"i\",{}]", l.as_usize()); }
                ProjectionElem::ConstantIndex { offset, .. } => { let _ = write!(s, "[\"ci\",{}]", offset); }
                ProjectionElem::Subslice { .. } => s.push_str("\"sub\""),
                _ => s.push_str("\"?\""),
            }
            cur = cur.projection_ty(self.tcx, elem);
        }
        s.push_str("]]");
        s
    }

    fn konst(&self, c: &mir::ConstOperand<'tcx>) -> String {
        let t = c.const_.ty();
        let val = match t.kind() {
            ty::FnDef(did, _) => format!("fn:{}", self.path(*did)),
            _ => {
                // Try to evaluate scalars / strs to a printable form
                let s = format!("{}", c.const_);
                s
            }
        };
        format!("[\"k\",{},{}]", esc(&self.ty(t)), esc(&val))
    }

    fn op(&self, body: &Body<'tcx>, o: &Operand<'tcx>) -> String {
        match o {
            Operand::Copy(p) => format!("[\"c\",{}]", self.place(body, p)),
            Operand::Move(p) => format!("[\"m\",{}]", self.place(body, p)),
            Operand::Constant(c) => self.konst(c),
            _ => "[\"?\"]".to_string(),
        }
    }

    fn rvalue(&self, body: &Body<'tcx>, r: &Rvalue<'tcx>) -> String {
        match r {
            Rvalue::Use(o, ..) => format!("[\"use\",{}]", self.op(body, o)),
            Rvalue::Ref(_, bk, p) => format!("[\"ref\",{},{}]", esc(&format!("{:?}", bk)), self.place(body, p)),
            Rvalue::RawPtr(_, p) => format!("[\"raw\",{}]", self.place(body, p)),
            Rvalue::Cast(k, o, t) => format!("[\"cast\",{},{},{}]", esc(&format!("{:?}", k)), self.op(body, o), esc(&self.ty(*t))),
            Rvalue::BinaryOp(op, b) => format!("[\"bin\",{},{},{}]", esc(&format!("{:?}", op)), self.op(body, &b.0), self.op(body, &b.1)),
            Rvalue::UnaryOp(op, o) => format!("[\"un\",{},{}]", esc(&format!("{:?}", op)), self.op(body, o)),
            Rvalue::Discriminant(p) => format!("[\"discr\",{}]", self.place(body, p)),
            Rvalue::CopyForDeref(p) => format!("[\"use\",[\"c\",{}]]", self.place(body, p)),
            Rvalue::Aggregate(k, ops) => {
                let ks = match &**k {
                    AggregateKind::Adt(did, v, _, _, _) => {
                        let adt = self.tcx.adt_def(*did);
                        format!("adt:{}::{}", self.path(*did), adt.variant(*v).name)
                    }
                    AggregateKind::Tuple => "tuple".to_string(),
                    AggregateKind::Array(_) => "array".to_string(),
                    AggregateKind::Closure(did, _) => format!("closure:{}", self.path(*did)),
                    _ => "other".to_string(),
                };
                let ops: Vec<String> = ops.iter().map(|o| self.op(body, o)).collect();
                format!("[\"agg\",{},[{}]]", esc(&ks), ops.join(","))
            }
            Rvalue::Repeat(o, _) => format!("[\"repeat\",{}]", self.op(body, o)),
            other => format!("[\"other\",{}]", esc(&format!("{:?}", other).chars().take(80).collect::<String>())),
        }
    }

    fn callee(&self, body: &Body<'tcx>, def_id: DefId, func: &Operand<'tcx>) -> String {
        let fty = func.ty(&body.local_decls, self.tcx);
        match fty.kind() {
            ty::FnDef(cdid, args) => {
                let mut inst = String::from("null");
                let env = TypingEnv::post_analysis(self.tcx, def_id);
                if let Ok(Some(i)) = ty::Instance::try_resolve(self.tcx, env, *cdid, args) {
                    let rd = i.def_id();
                    if rd != *cdid { inst = esc(&self.path(rd)); }
                }
                let tr = match self.tcx.trait_of_assoc(*cdid) { Some(t) => esc(&self.path(t)), None => "null".into() };
                let ga: Vec<String> = args.iter().map(|a| esc(&self.disp(a))).collect();
                format!("{{\"def\":{},\"ga\":[{}],\"inst\":{},\"trait\":{}}}", esc(&self.path(*cdid)), ga.join(","), inst, tr)
            }
            _ => format!("{{\"ind\":{},\"ty\":{}}}", self.op(body, func), esc(&self.ty(fty))),
        }
    }

    fn dump_body(&self, did: LocalDefId, out: &mut String) {
        let tcx = self.tcx;
        let def_id = did.to_def_id();
        let body = tcx.optimized_mir(def_id);
        let kind = tcx.def_kind(def_id);
        let (file, l0, l1) = self.line(tcx.def_span(def_id));
        let (_, _, lend) = self.line(body.span);
        let parent = if matches!(kind, DefKind::Closure) { esc(&self.path(tcx.parent(def_id))) } else { "null".into() };
        let vis = if matches!(kind, DefKind::Fn | DefKind::AssocFn) { format!("{:?}", tcx.visibility(def_id)) } else { "closure".into() };
        let _ = write!(out, "{{\"k\":\"fn\",\"id\":{},\"kind\":{},\"parent\":{},\"file\":{},\"line\":{},\"end\":{},\"vis\":{},\"argc\":{},",
            esc(&self.path(def_id)), esc(&format!("{:?}", kind)), parent, esc(&file), l0, lend, esc(&vis), body.arg_count);
        out.push_str("\"locals\":[");
        for (i, d) in body.local_decls.iter().enumerate() {
            if i > 0 { out.push(','); }
            out.push_str(&esc(&self.ty(d.ty)));
        }
        out.push_str("],\"names\":[");
        let mut first = true;
        for vdi in &body.var_debug_info {
            if let mir::VarDebugInfoContents::Place(p) = &vdi.value {
                if !first { out.push(','); }
                first = false;
                let _ = write!(out, "[{},{}]", esc(&vdi.name.to_string()), self.place(body, p));
            }
        }
        out.push_str("],\"bbs\":[");
        for (bb, data) in body.basic_blocks.iter_enumerated() {
            if bb.as_usize() > 0 { out.push(','); }
            let _ = write!(out, "{{\"c\":{},\"s\":[", if data.is_cleanup { 1 } else { 0 });
            let mut firsts = true;
            for st in &data.statements {
                let (_, ln, _) = self.line(st.source_info.span);
                let s = match &st.kind {
                    StatementKind::Assign(b) => format!("[\"A\",{},{},{}]", self.place(body, &b.0), self.rvalue(body, &b.1), ln),
                    StatementKind::SetDiscriminant { place, variant_index } => format!("[\"D\",{},{}]", self.place(body, place), variant_index.as_usize()),
                    _ => continue,
                };
                if !firsts { out.push(','); }
                firsts = false;
                out.push_str(&s);
            }
            out.push_str("],\"t\":");
            let term = data.terminator();
            let (_, tl, _) = self.line(term.source_info.span);
            let exp = term.source_info.span.from_expansion();
            let t = match &term.kind {
                TerminatorKind::Goto { target } => format!("{{\"k\":\"goto\",\"t\":{}}}", target.as_usize()),
                TerminatorKind::SwitchInt { discr, targets } => {
                    let vs: Vec<String> = targets.iter().map(|(v, b)| format!("[{},{}]", v, b.as_usize())).collect();
                    format!("{{\"k\":\"switch\",\"d\":{},\"v\":[{}],\"o\":{},\"line\":{}}}", self.op(body, discr), vs.join(","), targets.otherwise().as_usize(), tl)
                }
                TerminatorKind::Return => "{\"k\":\"ret\"}".to_string(),
                TerminatorKind::Unreachable => "{\"k\":\"unreach\"}".to_string(),
                TerminatorKind::UnwindResume => "{\"k\":\"resume\"}".to_string(),
                TerminatorKind::Drop { place, target, unwind, .. } => {
                    let t = place.ty(&body.local_decls, tcx).ty;
                    let u = match unwind { mir::UnwindAction::Cleanup(b) => format!("{}", b.as_usize()), _ => "null".into() };
                    format!("{{\"k\":\"drop\",\"p\":{},\"ty\":{},\"t\":{},\"u\":{},\"line\":{}}}", self.place(body, place), esc(&self.ty(t)), target.as_usize(), u, tl)
                }
                TerminatorKind::Call { func, args, destination, target, unwind, .. } => {
                    let a: Vec<String> = args.iter().map(|a| self.op(body, &a.node)).collect();
                    let u = match unwind { mir::UnwindAction::Cleanup(b) => format!("{}", b.as_usize()), _ => "null".into() };
                    let t = match target { Some(b) => format!("{}", b.as_usize()), None => "null".into() };
                    format!("{{\"k\":\"call\",\"f\":{},\"a\":[{}],\"d\":{},\"t\":{},\"u\":{},\"line\":{},\"x\":{}}}",
                        self.callee(body, def_id, func), a.join(","), self.place(body, destination), t, u, tl, if exp {1} else {0})
                }
                TerminatorKind::Assert { cond, expected, msg, target, unwind } => {
                    let m = match &**msg {
                        AssertKind::BoundsCheck { .. } => "BoundsCheck".to_string(),
                        AssertKind::Overflow(op, a, b) => format!("Overflow({:?})", op),
                        AssertKind::OverflowNeg(_) => "OverflowNeg".to_string(),
                        AssertKind::DivisionByZero(_) => "DivisionByZero".to_string(),
                        AssertKind::RemainderByZero(_) => "RemainderByZero".to_string(),
                        _ => "Other".to_string(),
                    };
                    let ops = match &**msg {
                        AssertKind::Overflow(_, a, b) => format!("[{},{}]", self.op(body, a), self.op(body, b)),
                        AssertKind::OverflowNeg(a) | AssertKind::DivisionByZero(a) | AssertKind::RemainderByZero(a) => format!("[{}]", self.op(body, a)),
                        AssertKind::BoundsCheck { len, index } => format!("[{},{}]", self.op(body, len), self.op(body, index)),
                        _ => "[]".into(),
                    };
                    format!("{{\"k\":\"assert\",\"c\":{},\"e\":{},\"m\":{},\"ops\":{},\"t\":{},\"line\":{}}}", self.op(body, cond), expected, esc(&m), ops, target.as_usize(), tl)
                }
                TerminatorKind::FalseEdge { real_target, .. } => format!("{{\"k\":\"goto\",\"t\":{}}}", real_target.as_usize()),
                TerminatorKind::FalseUnwind { real_target, .. } => format!("{{\"k\":\"goto\",\"t\":{}}}", real_target.as_usize()),
                other => format!("{{\"k\":\"other\",\"s\":{}}}", esc(&format!("{:?}", other).chars().take(60).collect::<String>())),
            };
            out.push_str(&t);
            out.push('}');
        }
        out.push_str("],\"promoted\":[");
        // promoted constants (`&Enum::Variant`, `&[..]` tables): the rvalues each one is built from
        let proms = tcx.promoted_mir(def_id);
        for (pi, pb) in proms.iter().enumerate() {
            if pi > 0 { out.push(','); }
            out.push('[');
            let mut firstp = true;
            for data in pb.basic_blocks.iter() {
                for st in &data.statements {
                    if let StatementKind::Assign(b) = &st.kind {
                        if !firstp { out.push(','); }
                        firstp = false;
                        out.push_str(&self.rvalue(pb, &b.1));
                    }
                }
            }
            out.push(']');
        }
        out.push_str("]}\n");
    }
}

// ---------------- HIR match tables ----------------
struct MatchVis<'a, 'tcx> {
    cx: &'a Cx<'tcx>,
    owner: LocalDefId,
    tr: &'tcx ty::TypeckResults<'tcx>,
    out: &'a mut String,
}

impl<'a, 'tcx> MatchVis<'a, 'tcx> {
    fn qres(&self, q: &hir::QPath<'tcx>, id: hir::HirId) -> String {
        match self.tr.qpath_res(q, id) {
            Res::Def(_, did) => self.cx.path(did),
            other => format!("{:?}", other),
        }
    }
    fn pat(&self, p: &hir::Pat<'tcx>, acc: &mut Vec<String>) {
        use hir::PatKind::*;
        match &p.kind {
            Wild => acc.push("wild".into()),
            Binding(_, _, id, sub) => { if let Some(s) = sub { self.pat(s, acc) } else { acc.push(format!("bind:{}", id.name)) } }
            Or(ps) => for q in ps.iter() { self.pat(q, acc) },
            Expr(e) => acc.push(self.patexpr(e)),
            Range(a, b, _) => acc.push(format!("range:{}..{}", a.map(|x| self.patexpr(x)).unwrap_or_default(), b.map(|x| self.patexpr(x)).unwrap_or_default())),
            TupleStruct(q, subs, _) => {
                let mut inner = Vec::new();
                for s in subs.iter() { self.pat(s, &mut inner) }
                acc.push(format!("variant:{}({})", self.qres(q, p.hir_id), inner.join(",")));
            }
            Struct(q, _, _) => acc.push(format!("variant:{}{{}}", self.qres(q, p.hir_id))),
            Ref(s, ..) | Box(s) | Deref(s) => self.pat(s, acc),
            Tuple(subs, _) => {
                let mut inner = Vec::new();
                for s in subs.iter() { self.pat(s, &mut inner) }
                acc.push(format!("tuple({})", inner.join(",")));
            }
            _ => acc.push("other".into()),
        }
    }
    fn patexpr(&self, e: &hir::PatExpr<'tcx>) -> String {
        match &e.kind {
            hir::PatExprKind::Lit { lit, negated } => format!("lit:{}{}", if *negated {"-"} else {""}, lit_str(lit)),
            hir::PatExprKind::Path(q) => format!("variant:{}", self.qres(q, e.hir_id)),
            _ => "other".into(),
        }
    }
}

fn lit_str(lit: &hir::Lit) -> String {
    use rustc_ast::LitKind;
    match &lit.node {
        LitKind::Str(s, _) => format!("str:{}", s),
        LitKind::Int(n, _) => format!("int:{}", n),
        LitKind::Bool(b) => format!("bool:{}", b),
        LitKind::Char(c) => format!("char:{}", c),
        LitKind::Byte(b) => format!("int:{}", b),
        other => format!("other:{:?}", other),
    }
}

struct RefVis<'a, 'b, 'tcx> { mv: &'b MatchVis<'a, 'tcx>, refs: Vec<String> }
impl<'a, 'b, 'tcx> Visitor<'tcx> for RefVis<'a, 'b, 'tcx> {
    fn visit_expr(&mut self, e: &'tcx hir::Expr<'tcx>) {
        match &e.kind {
            hir::ExprKind::Path(q) => {
                if let Res::Def(k, did) = self.mv.tr.qpath_res(q, e.hir_id) {
                    if matches!(k, DefKind::Fn | DefKind::AssocFn | DefKind::Ctor(..) | DefKind::Variant | DefKind::Const { .. } | DefKind::AssocConst { .. } | DefKind::Static { .. }) {
                        self.refs.push(self.mv.cx.path(did));
                    }
                }
            }
            hir::ExprKind::MethodCall(..) => {
                if let Some(did) = self.mv.tr.type_dependent_def_id(e.hir_id) { self.refs.push(self.mv.cx.path(did)); }
            }
            hir::ExprKind::Struct(q, ..) => {
                if let Res::Def(_, did) = self.mv.tr.qpath_res(q, e.hir_id) { self.refs.push(self.mv.cx.path(did)); }
            }
            hir::ExprKind::Lit(l) => { self.refs.push(format!("lit:{}", lit_str(l))); }
            _ => {}
        }
        intravisit::walk_expr(self, e);
    }
}

impl<'a, 'tcx> Visitor<'tcx> for MatchVis<'a, 'tcx> {
    fn visit_expr(&mut self, e: &'tcx hir::Expr<'tcx>) {
        if let hir::ExprKind::Match(scrut, arms, _src) = &e.kind {
            let sty = self.tr.expr_ty(scrut);
            let (_, ln, _) = self.cx.line(e.span);
            let mut s = format!("{{\"k\":\"match\",\"fn\":{},\"line\":{},\"sty\":{},\"arms\":[", esc(&self.cx.path(self.owner.to_def_id())), ln, esc(&self.cx.ty(sty)));
            for (i, arm) in arms.iter().enumerate() {
                if i > 0 { s.push(','); }
                let mut pats = Vec::new();
                self.pat(arm.pat, &mut pats);
                let guard = match arm.guard {
                    Some(g) => { let mut rv = RefVis { mv: self, refs: vec![] }; rv.visit_expr(g); format!("[{}]", rv.refs.iter().map(|r| esc(r)).collect::<Vec<_>>().join(",")) }
                    None => "null".into(),
                };
                let mut rv = RefVis { mv: self, refs: vec![] };
                rv.visit_expr(arm.body);
                let (_, al, _) = self.cx.line(arm.span);
                let _ = write!(s, "{{\"line\":{},\"pats\":[{}],\"guard\":{},\"refs\":[{}]}}", al,
                    pats.iter().map(|p| esc(p)).collect::<Vec<_>>().join(","), guard,
                    rv.refs.iter().map(|r| esc(r)).collect::<Vec<_>>().join(","));
            }
            s.push_str("]}\n");
            self.out.push_str(&s);
        }
        if let hir::ExprKind::Let(le) = &e.kind {
            let sty = self.tr.expr_ty(le.init);
            let (_, ln, _) = self.cx.line(e.span);
            let mut pats = Vec::new();
            self.pat(le.pat, &mut pats);
            let mut rv = RefVis { mv: self, refs: vec![] };
            rv.visit_expr(le.init);
            let s = format!("{{\"k\":\"let\",\"fn\":{},\"line\":{},\"sty\":{},\"pats\":[{}],\"init\":[{}]}}\n",
                esc(&self.cx.path(self.owner.to_def_id())), ln, esc(&self.cx.ty(sty)),
                pats.iter().map(|p| esc(p)).collect::<Vec<_>>().join(","),
                rv.refs.iter().map(|r| esc(r)).collect::<Vec<_>>().join(","));
            self.out.push_str(&s);
        }
        intravisit::walk_expr(self, e);
    }
}

extern crate rustc_ast;

struct Cb;
impl Callbacks for Cb {
    fn after_analysis<'tcx>(&mut self, _c: &Compiler, tcx: TyCtxt<'tcx>) -> Compilation {
        let mut krate = tcx.crate_name(LOCAL_CRATE).to_string();
        let want = std::env::var("TPFACTS_PREFIX").unwrap_or("trust_".into());
        if !krate.starts_with(&want) { return Compilation::Continue; }
        if krate == "build_script_build" { return Compilation::Continue; }
        let is_bin = tcx.crate_types().iter().any(|t| matches!(t, rustc_session::config::CrateType::Executable));
        if is_bin { krate = format!("{}_bin", krate); }
        let out_dir = match std::env::var("TPFACTS_OUT") { Ok(v) => v, Err(_) => return Compilation::Continue };
        std::fs::create_dir_all(&out_dir).ok();
        let cx = Cx { tcx, krate: krate.clone(), cache: Default::default() };
        let mut buf = String::new();
        let mut n = 0;
        for def in tcx.hir_body_owners() {
            let did = def.to_def_id();
            let kind = tcx.def_kind(did);
            if !matches!(kind, DefKind::Fn | DefKind::AssocFn | DefKind::Closure) { continue; }
            cx.dump_body(def, &mut buf);
            n += 1;
            // HIR matches (closure bodies are nested bodies: intravisit does not enter them, so each is visited as its own owner)
            {
                let body = tcx.hir_body_owned_by(def);
                let tr = tcx.typeck(def);
                let mut mv = MatchVis { cx: &cx, owner: def, tr, out: &mut buf };
                mv.visit_expr(body.value);
            }
        }
        // ADTs
        for id in tcx.hir_free_items() {
            let item = tcx.hir_item(id);
            let did = item.owner_id.to_def_id();
            match tcx.def_kind(did) {
                DefKind::Enum | DefKind::Struct => {
                    let adt = tcx.adt_def(did);
                    let mut s = format!("{{\"k\":\"adt\",\"id\":{},\"enum\":{},\"variants\":[", esc(&cx.path(did)), adt.is_enum());
                    for (i, v) in adt.variants().iter().enumerate() {
                        if i > 0 { s.push(','); }
                        let fields: Vec<String> = v.fields.iter().map(|f| format!("[{},{},{}]", esc(&f.name.to_string()), esc(&cx.ty(tcx.type_of(f.did).instantiate_identity().skip_norm_wip())), esc(&format!("{:?}", f.vis)))).collect();
                        let _ = write!(s, "{{\"name\":{},\"fields\":[{}]}}", esc(&v.name.to_string()), fields.join(","));
                    }
                    s.push_str("]}\n");
                    buf.push_str(&s);
                }
                DefKind::Static { mutability, .. } => {
                    let _ = write!(buf, "{{\"k\":\"static\",\"id\":{},\"mut\":{},\"ty\":{}}}\n", esc(&cx.path(did)), matches!(mutability, hir::Mutability::Mut), esc(&cx.ty(tcx.type_of(did).instantiate_identity().skip_norm_wip())));
                }
                _ => {}
            }
        }
        // trait impls
        for (trait_did, impls) in tcx.all_local_trait_impls(()) {
            for imp in impls {
                let idid = imp.to_def_id();
                let self_ty = tcx.type_of(idid).instantiate_identity().skip_norm_wip();
                let mut ms = Vec::new();
                for item in tcx.associated_items(idid).in_definition_order() {
                    if let Some(tid) = item.trait_item_def_id() { ms.push(format!("[{},{}]", esc(&cx.path(tid)), esc(&cx.path(item.def_id)))); }
                }
                let derived = tcx.is_automatically_derived(idid);
                let _ = write!(buf, "{{\"k\":\"impl\",\"trait\":{},\"self\":{},\"derived\":{},\"methods\":[{}]}}\n", esc(&cx.path(*trait_did)), esc(&cx.ty(self_ty)), derived, ms.join(","));
            }
        }
        let tgt = format!("{}/{}-{}.jsonl", out_dir, krate, std::process::id());
        let tmp = format!("{}.tmp", tgt);
        {
            let mut f = std::fs::File::create(&tmp).unwrap();
            f.write_all(buf.as_bytes()).unwrap();
        }
        std::fs::rename(&tmp, &tgt).unwrap();
        eprintln!("tpfacts: crate={} fns={} bytes={}", krate, n, buf.len());
        Compilation::Continue
    }
}

fn main() {
    let mut args: Vec<String> = std::env::args().collect();
    args.remove(0); // our own path; args[0] is now the rustc path
    let mut cb = Cb;
    rustc_driver::run_compiler(&args, &mut cb);
}
