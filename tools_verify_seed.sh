#!/bin/bash
# usage: tools_verify_seed.sh <worktree> <seed-dir> <crate> <demo-test-args...>
# Confirms a seeded change in a scratch worktree: demo passes on the clean tree, fails with the patch,
# and the crate's unit tests (--lib) still pass with the patch.
set -u
WT=$1; SD=$2; CRATE=$3; shift 3
export CARGO_PROFILE_DEV_DEBUG=0 CARGO_PROFILE_TEST_DEBUG=0 CARGO_INCREMENTAL=0 CARGO_NET_OFFLINE=true
cd "$WT" || exit 9
git checkout -q -- . ; git clean -fdq -e target
git apply "$SD/demo.diff" || { echo "RESULT demo.diff does not apply"; exit 3; }
echo "== demo on clean tree"; cargo test -p $CRATE --offline "$@" 2>&1 | grep -E "^test result|FAILED|panicked|error(\[|:)" | head -8
C1=${PIPESTATUS[0]}
git apply "$SD/patch.diff" || { echo "RESULT patch.diff does not apply"; git checkout -q -- .; git clean -fdq -e target; exit 3; }
echo "== demo with patch"; cargo test -p $CRATE --offline "$@" 2>&1 | grep -E "^test result|FAILED|panicked|error(\[|:)" | head -8
C2=${PIPESTATUS[0]}
echo "== crate unit tests with patch"; cargo test -p $CRATE --lib --offline 2>&1 | grep -E "^test result|FAILED|error(\[|:)" | head -8
C3=${PIPESTATUS[0]}
git checkout -q -- . ; git clean -fdq -e target
echo "RESULT clean_demo_rc=$C1 patched_demo_rc=$C2 patched_lib_rc=$C3  (want 0, non-zero, 0)"
