#!/usr/bin/env python3
"""usage: tools_benign_scratch.py <dir with rfNN.diff> [Cxx ...]
Every behaviour-preserving patch must leave all checks silent. Works on scratch copies of /repo (the working tree is
copied once at the start, so /repo may be used for other things afterwards); prints one line per patch."""
import os, sys, shutil, glob
sys.path.insert(0, os.path.dirname(os.path.abspath(__file__)))
os.environ.setdefault('TP_SCRATCH', '/var/tmp/tpv-benign-%d' % os.getpid())
from tprules import selftest, engine
d = os.path.abspath(sys.argv[1])
props = sys.argv[2:] or ['C%02d' % i for i in range(1, 21)]
os.makedirs(selftest.SCRATCH, exist_ok=True)
base = os.path.join(selftest.SCRATCH, 'base')
selftest._copy_tree(base)
basekeys = {p: engine.evaluate_keys(p, base) for p in props}
try:
    for f in sorted(glob.glob(os.path.join(d, 'rf*.diff'))):
        n = os.path.basename(f)[:-5]
        dst = os.path.join(selftest.SCRATCH, 'w')
        shutil.rmtree(dst, ignore_errors=True)
        shutil.copytree(base, dst, symlinks=True)
        ok, msg = selftest._apply(dst, f)
        if not ok:
            print(n, 'NOAPPLY', msg, flush=True)
            continue
        alarms = []
        for p in props:
            try:
                new = sorted(engine.evaluate_keys(p, dst) - basekeys[p])
            except Exception as e:      # a crash of a rule is an alarm too
                new = ['CRASH %s: %r' % (p, e)]
            alarms += new
        print(n, 'silent' if not alarms else 'ALARM ' + '; '.join(alarms[:8]), flush=True)
finally:
    shutil.rmtree(selftest.SCRATCH, ignore_errors=True)
