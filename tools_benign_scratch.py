#!/usr/bin/env python3
"""usage: tools_benign_scratch.py <dir with rfNN.diff> [<dir> ...] [-- Cxx ...]
Every behaviour-preserving patch must leave all checks silent. Works on scratch copies of /repo (the working tree is
copied once at the start, so /repo may be used for other things afterwards); prints one line per patch.
Each (patch, property) is evaluated in its own subprocess (a process that evaluates many properties keeps every fact
set it loaded and runs out of memory), eight at a time."""
import os, sys, shutil, glob, json, subprocess
from concurrent.futures import ThreadPoolExecutor
HERE = os.path.dirname(os.path.abspath(__file__))
sys.path.insert(0, HERE)
os.environ.setdefault('TP_SCRATCH', '/var/tmp/tpv-benign-%d' % os.getpid())
from tprules import selftest
args = sys.argv[1:]
props = ['C%02d' % i for i in range(1, 21)]
if '--' in args:
    i = args.index('--')
    args, props = args[:i], args[i + 1:]
dirs = [os.path.abspath(a) for a in args]
os.makedirs(selftest.SCRATCH, exist_ok=True)
base = os.path.join(selftest.SCRATCH, 'base')
selftest._copy_tree(base)

CODE = ("import sys, json; sys.path.insert(0, %r); from tprules import engine; "
        "print('KEYS ' + json.dumps(sorted(engine.evaluate_keys(sys.argv[1], sys.argv[2]))))" % HERE)


def keys(prop, repo):
    r = subprocess.run([sys.executable, '-c', CODE, prop, repo], stdout=subprocess.PIPE, stderr=subprocess.PIPE, text=True)
    for line in r.stdout.splitlines():
        if line.startswith('KEYS '):
            return set(json.loads(line[5:]))
    return {'CRASH %s: %s' % (prop, (r.stderr.strip().splitlines() or ['?'])[-1][:200])}


def all_keys(repo):
    # the first property generates the facts for this tree; the others then find them in the cache
    out = {props[0]: keys(props[0], repo)}
    with ThreadPoolExecutor(max_workers=8) as ex:
        for p, k in zip(props[1:], ex.map(lambda p: keys(p, repo), props[1:])):
            out[p] = k
    return out


try:
    basekeys = all_keys(base)
    for d in dirs:
        for f in sorted(glob.glob(os.path.join(d, 'rf*.diff'))):
            n = '%s/%s' % (os.path.basename(d), os.path.basename(f)[:-5])
            dst = os.path.join(selftest.SCRATCH, 'w')
            shutil.rmtree(dst, ignore_errors=True)
            shutil.copytree(base, dst, symlinks=True)
            ok, msg = selftest._apply(dst, f)
            if not ok:
                print(n, 'NOAPPLY', msg, flush=True)
                continue
            got = all_keys(dst)
            alarms = []
            for p in props:
                alarms += sorted(got[p] - basekeys[p])
            print(n, 'silent' if not alarms else 'ALARM ' + '; '.join(alarms[:8]), flush=True)
finally:
    shutil.rmtree(selftest.SCRATCH, ignore_errors=True)
