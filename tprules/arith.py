"""P10 arithmetic discharge over MIR `Assert(Overflow | OverflowNeg | DivisionByZero | RemainderByZero)`.

A site is *discharged* when one of these holds (the idioms are the repository's own):
 (a) width: a magnitude bound computed from the operands' definitions (constants, casts and
     `From` widenings of narrower integers, products/sums of such) fits the operation's type;
 (b) saturation guard: `x + 1` dominated by the true edge of `x < MAX` / `x != MAX`
     (`x - 1`: `x > MIN`, `x > 0`, `x != 0`) on the same place;
 (c) zero test: a Div/Rem whose divisor is dominated by the non-zero edge of a test of the
     same value against 0;
 (d) bookkeeping: operands of `usize`/`u32` type that do not derive from a program value
     (no `Value` payload, no signed-integer cast in their backward slice).
Anything else is a finding unless the rule file lists it as a reviewed exception.
"""
import re
from .cfg import F, op_local, op_base
from .gates import compare_seeds, test_edges, guarded

INT_BITS = {'i8': 7, 'i16': 15, 'i32': 31, 'i64': 63, 'i128': 127, 'isize': 63,
            'u8': 8, 'u16': 16, 'u32': 32, 'u64': 64, 'u128': 128, 'usize': 64}
SIGNED = {'i8', 'i16', 'i32', 'i64', 'i128', 'isize'}
_CONST_INT = re.compile(r'^(?:const )?(-?[0-9_]+)_?([iu](?:8|16|32|64|128|size))?$')
_FROM = re.compile(r'From<[^>]*>( for [^>]+)?>::from$|Into<[^>]*>( for [^>]+)?>::into$')
VALUE_FIELD = 'trust_runtime::value::types::Value.'


def sites(fn):
    """[(bb, kind, op, [operands])] for arithmetic asserts in non-cleanup blocks"""
    fn = F(fn) if isinstance(fn, dict) else fn
    out = []
    for b in fn.g:
        t = fn.term(b)
        if t['k'] != 'assert':
            continue
        m = t['m']
        if m.startswith('Overflow('):
            out.append((b, 'Overflow', m[9:-1], t['ops']))
        elif m == 'OverflowNeg':
            out.append((b, 'OverflowNeg', 'Neg', t['ops']))
        elif m in ('DivisionByZero', 'RemainderByZero'):
            # the assert message carries the dividend; the divisor is the operand of the
            # `Eq(divisor, 0)` that computes the assert condition
            ops = t['ops']
            cl = op_local(t['c'])
            if cl is not None:
                for (db, dk, rv) in fn.defs.get(cl, []):
                    if dk == 'A' and rv[0] == 'bin' and rv[1] == 'Eq':
                        ops = [rv[2]]
            out.append((b, m, 'Div' if m[0] == 'D' else 'Rem', ops))
    return out


def op_type(fn, o):
    if o[0] in ('c', 'm'):
        if not o[1][1]:
            return fn.local_ty(o[1][0])
        return None
    if o[0] == 'k':
        return o[1]
    return None


def _single_def(fn, l):
    dl = fn.defs.get(l, [])
    if len(dl) == 1:
        return dl[0]
    return None


FX = None      # set by a rule file to enable return-width summaries of local integer helpers


def bits(fn, o, depth=0, env=None):
    """upper bound on the magnitude (in bits) of an integer operand, or 999 if unknown.
    env: optional {param local: bits} used when summarising a helper for one call site."""
    if depth > 10:
        return 999
    if o[0] == 'k':
        m = _CONST_INT.match(o[2].strip())
        if m:
            try:
                v = abs(int(m.group(1).replace('_', '')))
                return max(v.bit_length(), 1)
            except ValueError:
                return 999
        return 999
    if o[0] not in ('c', 'm') or o[1][1]:
        return 999
    l = o[1][0]
    ty = fn.local_ty(l)
    d = _single_def(fn, l)
    own = INT_BITS.get(ty, 999)
    if env is not None and l in env:
        return min(own, env[l])
    if d is None:
        return own
    b, k, payload = d
    if k == 'A':
        rv = payload
        if rv[0] == 'use':
            src = rv[1]
            if src[0] in ('c', 'm') and len(src[1][1]) == 1 and isinstance(src[1][1][0], list) and src[1][1][0][0] == 'f' and src[1][1][0][1] in ('0', 0):
                # `(_t.0)` of a checked-arithmetic tuple: the width of the operation itself
                dd = _single_def(fn, src[1][0])
                if dd and dd[1] == 'A' and dd[2][0] == 'bin':
                    rv = dd[2]
                    a, c = bits(fn, rv[2], depth + 1, env), bits(fn, rv[3], depth + 1, env)
                    if rv[1] in ('Mul', 'MulWithOverflow'):
                        return min(own, a + c)
                    if rv[1] in ('Add', 'Sub', 'AddWithOverflow', 'SubWithOverflow'):
                        return min(own, max(a, c) + 1)
                return own
            return min(own, bits(fn, src, depth + 1, env))
        if rv[0] == 'cast':
            src_ty = op_type(fn, rv[2])
            sb = bits(fn, rv[2], depth + 1, env)
            if src_ty in INT_BITS:
                sb = min(sb, INT_BITS[src_ty])
            return min(own, sb)
        if rv[0] == 'bin':
            a, c = bits(fn, rv[2], depth + 1, env), bits(fn, rv[3], depth + 1, env)
            if rv[1] in ('Mul', 'MulWithOverflow'):
                return min(own, a + c)
            if rv[1] in ('Add', 'Sub', 'AddWithOverflow', 'SubWithOverflow'):
                return min(own, max(a, c) + 1)
            if rv[1] in ('Div', 'Rem', 'BitAnd', 'Shr'):
                return min(own, a)
            return own
        if rv[0] == 'use' or rv[0] == 'un':
            return own
        return own
    if k == 'C':
        t = payload
        f = t['f']
        if 'def' in f and t['a']:
            nm = f.get('inst') or f['def']
            if _FROM.search(nm) or _FROM.search(f['def']):
                src_ty = op_type(fn, t['a'][0])
                sb = bits(fn, t['a'][0], depth + 1, env)
                if src_ty in INT_BITS:
                    sb = min(sb, INT_BITS[src_ty])
                return min(own, sb)
            if re.search(r'::(saturating_sub|checked_sub|wrapping_sub|min)$', nm):
                a0 = bits(fn, t['a'][0], depth + 1, env)
                if nm.endswith('::min') and len(t['a']) > 1:
                    a0 = min(a0, bits(fn, t['a'][1], depth + 1, env))
                return min(own, a0)
            if FX is not None and nm in FX.fns and depth < 6:
                # return-width summary of a local integer helper for this call site's argument widths
                crec = FX.fns[nm]
                cfn = F(crec)
                if crec['argc'] == len(t['a']) and all(cfn.local_ty(i + 1) in INT_BITS for i in range(crec['argc'])) and cfn.local_ty(0) in INT_BITS and len(cfn.g) <= 6:
                    cenv = {i + 1: bits(fn, t['a'][i], depth + 1, env) for i in range(crec['argc'])}
                    return min(own, bits(cfn, ['c', [0, []]], depth + 1, cenv))
        return own
    return own


def tuple_field_src(fn, o):
    """`(_t.0)` of a checked-op tuple -> the bin rvalue producing _t, else None"""
    return None


def width_discharged(fn, kind, op, ops):
    """(a): result magnitude fits the type"""
    ty = None
    for o in ops:
        ty = op_type(fn, o) or ty
    if ty not in INT_BITS:
        return False
    cap = INT_BITS[ty]
    if kind == 'OverflowNeg':
        return bits(fn, ops[0]) < cap + 0 and False  # -MIN: only safe when |x| < 2^cap, i.e. value widened
    if kind in ('DivisionByZero', 'RemainderByZero'):
        return False
    a, b = bits(fn, ops[0]), bits(fn, ops[1])
    if op == 'Mul':
        return a + b <= cap
    if op == 'Add':
        return max(a, b) + 1 <= cap
    if op == 'Sub':
        if ty in SIGNED:
            return max(a, b) + 1 <= cap
        return False
    if op in ('Div', 'Rem'):
        # signed MIN / -1: impossible when the dividend's magnitude is below the type's
        return ty not in SIGNED or a < cap
    if op in ('Shl', 'Shr'):
        return False
    return False


def _same_place(a, b):
    return a[0] in ('c', 'm') and b[0] in ('c', 'm') and a[1] == b[1]


def _place_key(fn, o):
    """canonical textual key of the value an operand reads, looking through one copy"""
    if o[0] not in ('c', 'm'):
        return None
    if o[1][1]:
        return repr(o[1])
    d = _single_def(fn, o[1][0])
    if d and d[1] == 'A' and d[2][0] == 'use' and d[2][1][0] in ('c', 'm'):
        src = d[2][1]
        if src[1][1]:
            return repr(src[1])
        return _place_key(fn, src)
    return repr(o[1])


def _any_const(o):
    """a literal or named constant operand"""
    return o[0] == 'k'


def guard_discharged(fn, b, op, ops):
    """(b): x+1 under x<MAX / x!=MAX ; x-1 under x>MIN / x>0 / x!=0"""
    if op not in ('Add', 'Sub') or len(ops) != 2:
        return False
    c = ops[1]
    if c[0] != 'k':
        return False
    m = _CONST_INT.match(c[2].strip())
    if not m or abs(int(m.group(1).replace('_', ''))) != 1:
        return False
    xkey = _place_key(fn, ops[0])
    if xkey is None:
        return False

    def is_bound_const(o, want_max):
        if o[0] == 'k':
            s = o[2]
            if want_max:
                return 'MAX' in s or _is_max_literal(s, o[1])
            return 'MIN' in s or _CONST_INT.match(s.strip()) and int(_CONST_INT.match(s.strip()).group(1).replace('_', '')) == 0 or _is_min_literal(s, o[1])
        # `T::MAX` consts are often materialised through a local
        if o[0] in ('c', 'm') and not o[1][1]:
            d = _single_def(fn, o[1][0])
            if d and d[1] == 'A' and d[2][0] == 'use' and d[2][1][0] == 'k':
                return is_bound_const(d[2][1], want_max)
        return False

    def is_type_max(o):
        if o[0] == 'k':
            sx = o[2].replace('const ', '').strip()
            return bool(re.search(r'(^|::)MAX$', sx)) or _is_max_literal(sx, o[1])
        if o[0] in ('c', 'm') and not o[1][1]:
            d = _single_def(fn, o[1][0])
            if d and d[1] == 'A' and d[2][0] == 'use' and d[2][1][0] == 'k':
                return is_type_max(d[2][1])
        return False

    def is_const(o):
        if o[0] == 'k':
            return True
        if o[0] in ('c', 'm') and not o[1][1]:
            d = _single_def(fn, o[1][0])
            return bool(d and d[1] == 'A' and d[2][0] == 'use' and d[2][1][0] == 'k')
        return False

    def pred(cop, a, c2, bb):
        ka, kc = _place_key(fn, a), _place_key(fn, c2)
        if op == 'Add':
            # x on the left, constant bound on the right
            if ka == xkey and is_const(c2):
                tm = is_type_max(c2)
                if cop == 'Lt':
                    return True
                if cop == 'Ge':
                    return False
                if cop == 'Le' and not tm:
                    return True
                if cop == 'Gt' and not tm:
                    return False
                if cop == 'Ne' and tm:
                    return True
                if cop == 'Eq' and tm:
                    return False
            if kc == xkey and is_const(a):
                tm = is_type_max(a)
                if cop == 'Gt':
                    return True
                if cop == 'Le':
                    return False
                if cop == 'Ge' and not tm:
                    return True
                if cop == 'Lt' and not tm:
                    return False
                if cop == 'Ne' and tm:
                    return True
                if cop == 'Eq' and tm:
                    return False
        else:
            if ka == xkey and is_bound_const(c2, False):
                if cop in ('Gt', 'Ne'):
                    return True
                if cop in ('Eq', 'Le'):
                    return False
            if kc == xkey and is_bound_const(a, False):
                if cop in ('Lt', 'Ne'):
                    return True
                if cop in ('Eq', 'Ge'):
                    return False
        return None
    seeds = compare_seeds(fn, pred)
    if not seeds:
        return False
    pos, neg, _ = test_edges(fn, seeds)
    return bool(pos) and guarded(fn, b, pos)


_MAXV = {'i8': 127, 'i16': 32767, 'i32': 2147483647, 'i64': 9223372036854775807,
         'u8': 255, 'u16': 65535, 'u32': 4294967295, 'u64': 18446744073709551615}


def _is_max_literal(s, ty):
    m = _CONST_INT.match(s.strip())
    if not m:
        return False
    try:
        return int(m.group(1).replace('_', '')) == _MAXV.get(ty, None)
    except ValueError:
        return False


def _is_min_literal(s, ty):
    m = _CONST_INT.match(s.strip())
    if not m:
        return False
    try:
        v = int(m.group(1).replace('_', ''))
    except ValueError:
        return False
    return ty in _MAXV and ty.startswith('i') and v == -_MAXV[ty] - 1


def zero_test_discharged(fn, b, ops):
    """(c): divisor dominated by the non-zero edge of a test against 0 (or a non-zero constant)"""
    cv = const_int(fn, ops[0])
    if cv is not None and cv != 0:
        return True
    dkey = _place_key(fn, ops[0])
    if dkey is None:
        return False

    def is_zero(o):
        if o[0] == 'k':
            m = _CONST_INT.match(o[2].strip())
            return bool(m) and int(m.group(1).replace('_', '')) == 0
        return False

    def pred(cop, a, c2, bb):
        if cop not in ('Eq', 'Ne'):
            return None
        if _place_key(fn, a) == dkey and is_zero(c2) or _place_key(fn, c2) == dkey and is_zero(a):
            return cop == 'Ne'
        return None
    seeds = compare_seeds(fn, pred)
    cut = set()
    if seeds:
        pos, neg, _ = test_edges(fn, seeds)
        cut |= pos
    # direct `switchInt(divisor) -> [0: zero-arm, otherwise: ...]`
    for sb in fn.g:
        t = fn.term(sb)
        if t['k'] != 'switch':
            continue
        if _place_key(fn, t['d']) == dkey:
            explicit = {int(v): tb for v, tb in t['v']}
            if 0 in explicit:
                for v, tb in explicit.items():
                    if v != 0:
                        cut.add((sb, tb))
                if t['o'] != explicit[0]:
                    cut.add((sb, t['o']))
    return bool(cut) and guarded(fn, b, cut)


def tainted_by_value(fn, o, depth=0, seen=None):
    """backward slice of an operand reaches a `Value` payload, a signed integer cast, or a
    non-usize integer parameter"""
    if seen is None:
        seen = set()
    if o[0] == 'k':
        return False
    if o[0] not in ('c', 'm'):
        return True
    for p in o[1][1]:
        if isinstance(p, list) and p[0] == 'f' and p[1].startswith(VALUE_FIELD):
            return True
    l = o[1][0]
    if l in seen:
        return False
    seen.add(l)
    if depth > 25:
        return True
    argc = fn.r['argc']
    if 1 <= l <= argc:
        ty = fn.local_ty(l)
        if ty in INT_BITS and ty not in ('usize', 'u32'):
            return True
    for (b, k, payload) in fn.defs.get(l, []):
        if k == 'A':
            rv = payload
            kind = rv[0]
            subs = []
            if kind == 'use':
                subs = [rv[1]]
            elif kind == 'cast':
                st = op_type(fn, rv[2])
                if st in SIGNED or st in ('f32', 'f64'):
                    return True
                subs = [rv[2]]
            elif kind == 'bin':
                subs = [rv[2], rv[3]]
            elif kind == 'un':
                subs = [rv[2]]
            elif kind == 'agg':
                subs = rv[2]
            elif kind in ('ref', 'discr'):
                continue
            for s in subs:
                if tainted_by_value(fn, s, depth + 1, seen):
                    return True
        elif k == 'C':
            t = payload
            f = t['f']
            nm = (f.get('inst') or f.get('def') or '')
            if re.search(r'::(len|count|capacity|position|rfind|find|size_of|min|max|saturating_\w+|checked_\w+|wrapping_\w+|iter|enumerate|next)$', nm):
                continue
            if re.search(r'as_nanos$|as_millis$|as_secs$|to_i64$|to_u64$|int_value$|index_to_i64$|::ticks$|::nanos$|try_from$|try_into$', nm):
                return True
            # other calls: result taken as clean only when it is a usize
            ty = fn.local_ty(l)
            if ty not in ('usize',):
                if ty in INT_BITS:
                    return True
    return False


def bookkeeping_discharged(fn, ops):
    tys = [op_type(fn, o) for o in ops]
    known = [t for t in tys if t]
    if not known or not all(t in ('usize', 'u32') for t in known if t in INT_BITS):
        # projections (field places) have no local type: look at the constant's type
        pass
    ty = None
    for o in ops:
        if o[0] == 'k':
            ty = o[1]
    for t in known:
        if t in INT_BITS:
            ty = ty or t
    if ty not in ('usize', 'u32'):
        return False
    return not any(tainted_by_value(fn, o) for o in ops)


def discharge(fn, b, kind, op, ops):
    """-> reason string or None"""
    fn = F(fn) if isinstance(fn, dict) else fn
    if kind == 'Overflow' and width_discharged(fn, kind, op, ops):
        return 'width'
    if kind == 'Overflow' and guard_discharged(fn, b, op, ops):
        return 'saturation-guard'
    if kind in ('DivisionByZero', 'RemainderByZero') and zero_test_discharged(fn, b, ops):
        return 'zero-test'
    if kind == 'Overflow' and bookkeeping_discharged(fn, ops):
        return 'bookkeeping'
    return None


def const_int(fn, o, depth=0):
    """integer value of an operand that is a literal or a single-assignment copy of one, else None"""
    if o[0] == 'k':
        m = _CONST_INT.match(o[2].strip())
        if m:
            try:
                return int(m.group(1).replace('_', ''))
            except ValueError:
                return None
        return None
    if o[0] in ('c', 'm') and not o[1][1] and depth < 4:
        d = _single_def(fn, o[1][0])
        if d and d[1] == 'A' and d[2][0] == 'use':
            return const_int(fn, d[2][1], depth + 1)
    return None
