"""P2: gates as edge cuts.

A gate is a value (call result, field read) whose test decides whether control may reach a
sink.  `test_edges` follows the value through the MIR temporaries that derive from it
(copies, refs, `!`, discriminant reads, `Try::branch`, `is_some/is_ok/...`, polarity
preserving adaptors) to every `SwitchInt` that tests it, and classifies the switch's out
edges as positive (Ok / Some / true / Continue) or negative.  "Sink S is guarded by gate G"
means S is unreachable from the function entry once G's permitting edges are removed.
"""
import re
from .cfg import F, op_local, op_base

# positive variant index per tested type
def _kind_of_type(ty):
    t = ty
    while t.startswith('&'):
        t = t[1:]
        if t.startswith('mut '):
            t = t[4:]
    if t == 'bool':
        return ('bool', True)
    if t.startswith('core::result::Result<'):
        return ('val', 'Result')
    if t.startswith('core::option::Option<'):
        return ('val', 'Option')
    if t.startswith('core::ops::ControlFlow<') or t.startswith('core::ops::control_flow::ControlFlow<'):
        return ('val', 'ControlFlow')
    return None


POS_INDEX = {'Result': 0, 'Option': 1, 'ControlFlow': 0}

# callee suffix -> effect on a derived value passed as first argument
_BOOL_POS = re.compile(r'(Option(::)?<.*>|Result(::)?<.*>)::(is_some|is_ok)$|::is_some_and$|::is_ok_and$')
_BOOL_NEG = re.compile(r'(Option(::)?<.*>|Result(::)?<.*>)::(is_none|is_err)$')
_PASS = re.compile(
    r'(Option(::)?<.*>|Result(::)?<.*>)::(map_err|map|ok_or|ok_or_else|ok|and_then|and|copied|cloned|as_ref|as_mut|'
    r'as_deref|as_deref_mut|filter|inspect|inspect_err|take|transpose|flatten)$')
_TRY_BRANCH = re.compile(r'Try>::branch$')
_CLONE = re.compile(r'Clone>::clone$|::clone$')


def derive(fn, seeds, implications=False):
    """seeds: {local: kind}. Returns {local: kind} closed under derivation.
    kind: ('bool', parity) | ('val', T) | ('discr', T); with implications=True also ('imp', parity): a boolean that can
    only be true when the seed has that parity (`x && seed`, `x && !seed`: every definition is `false` or derives from
    the seed) - its true edge is a test of the seed, its false edge says nothing."""
    fn = F(fn) if isinstance(fn, dict) else fn
    d = dict(seeds)
    defs = fn.defs
    changed = True
    while changed:
        changed = False
        for l, dl in defs.items():
            if l in d:
                continue
            kinds = []
            ok = True
            imp = []
            imp_ok = implications and fn.local_ty(l) == 'bool'
            for (b, k, payload) in dl:
                nk = None
                if imp_ok and k == 'A' and payload[0] == 'use':
                    o_ = payload[1]
                    if o_[0] == 'k' and 'false' in str(o_[2]):
                        imp.append(None)
                        ok = False
                        continue
                    if o_[0] in ('c', 'm') and not o_[1][1] and d.get(o_[1][0], (None,))[0] == 'imp':
                        imp.append(d[o_[1][0]][1])
                        ok = False
                        continue
                if k == 'A':
                    rv = payload
                    if rv[0] == 'use':
                        o = rv[1]
                        if o[0] in ('c', 'm'):
                            base = o[1][0]
                            proj = o[1][1]
                            if base in d and all(p == '*' for p in proj):
                                nk = d[base]
                    elif rv[0] == 'ref':
                        pl = rv[2]
                        if pl[0] in d and all(p == '*' for p in pl[1]):
                            nk = d[pl[0]]
                    elif rv[0] == 'un' and rv[1] == 'Not':
                        o = rv[2]
                        bl = op_local(o)
                        if bl in d and d[bl][0] == 'bool':
                            nk = ('bool', not d[bl][1])
                    elif rv[0] == 'discr':
                        pl = rv[1]
                        if pl[0] in d and all(p == '*' for p in pl[1]) and d[pl[0]][0] == 'val':
                            nk = ('discr', d[pl[0]][1])
                    elif rv[0] == 'bin' and rv[1] in ('Eq', 'Ne'):
                        # bool == const
                        a, bb_ = rv[2], rv[3]
                        la = op_local(a)
                        if la in d and d[la][0] == 'bool' and bb_[0] == 'k':
                            cv = bb_[2].replace('const ', '')
                            if cv in ('true', 'false'):
                                par = d[la][1]
                                same = (cv == 'true') == (rv[1] == 'Eq')
                                nk = ('bool', par if same else (not par))
                elif k == 'C':
                    t = payload
                    f = t['f']
                    if 'def' in f and t['a']:
                        nm = f.get('inst') or f['def']
                        a0 = op_base(t['a'][0])
                        if a0 in d and t['a'][0][0] in ('c', 'm') and all(p == '*' for p in t['a'][0][1][1]):
                            src = d[a0]
                            if src[0] == 'val':
                                if _TRY_BRANCH.search(nm) or _TRY_BRANCH.search(f['def']):
                                    nk = ('val', 'ControlFlow')
                                elif _BOOL_POS.search(nm):
                                    nk = ('bool', True)
                                elif _BOOL_NEG.search(nm):
                                    nk = ('bool', False)
                                elif _PASS.search(nm):
                                    kk = _kind_of_type(fn.local_ty(l))
                                    if kk and kk[0] == 'val':
                                        nk = kk
                                elif _CLONE.search(nm):
                                    nk = src
                            elif src[0] == 'bool' and _CLONE.search(nm):
                                nk = src
                if nk is None:
                    ok = False
                    imp_ok = False
                    break
                kinds.append(nk)
                if nk[0] == 'bool':
                    imp.append(nk[1])
                else:
                    imp_ok = False
            if ok and kinds and all(k == kinds[0] for k in kinds):
                d[l] = kinds[0]
                changed = True
            elif imp_ok:
                par = {x for x in imp if x is not None}
                if len(par) == 1:
                    d[l] = ('imp', par.pop())
                    changed = True
    return d


def test_edges(fn, seeds, implications=False):
    """-> (pos_edges, neg_edges, switch_blocks)"""
    fn = F(fn) if isinstance(fn, dict) else fn
    d = derive(fn, seeds, implications)
    pos, neg, sw = set(), set(), []
    for b in fn.g:
        t = fn.term(b)
        if t['k'] != 'switch':
            continue
        l = op_local(t['d'])
        if l is None or l not in d:
            continue
        kind = d[l]
        if kind[0] == 'bool':
            # [0: false, otherwise: true]
            true_t, false_t = set(), set()
            explicit = {int(v): tb for v, tb in t['v']}
            if 0 in explicit:
                false_t.add(explicit[0])
                if 1 in explicit:
                    true_t.add(explicit[1])
                else:
                    true_t.add(t['o'])
            elif 1 in explicit:
                true_t.add(explicit[1])
                false_t.add(t['o'])
            else:
                continue
            p, n = (true_t, false_t) if kind[1] else (false_t, true_t)
        elif kind[0] == 'imp':
            explicit = {int(v): tb for v, tb in t['v']}
            true_t = {explicit[1]} if 1 in explicit else ({t['o']} if 0 in explicit else set())
            if not true_t:
                continue
            p, n = (true_t, set()) if kind[1] else (set(), true_t)
        elif kind[0] == 'discr':
            pi = POS_INDEX[kind[1]]
            explicit = {int(v): tb for v, tb in t['v']}
            p, n = set(), set()
            if pi in explicit:
                p.add(explicit[pi])
                for v, tb in explicit.items():
                    if v != pi:
                        n.add(tb)
                # otherwise edge is `unreachable` for 2-variant enums when both listed
                if len(explicit) < 2:
                    n.add(t['o'])
            else:
                p.add(t['o'])
                n.update(explicit.values())
        else:
            continue
        sw.append(b)
        for x in p:
            pos.add((b, x))
        for x in n:
            neg.add((b, x))
    # an edge that is both (switch with identical targets) gives no information
    both = pos & neg
    return pos - both, neg - both, sw


def call_result_edges(fn, call_bb):
    """edges testing the result of the call terminating block call_bb"""
    fn = F(fn) if isinstance(fn, dict) else fn
    t = fn.term(call_bb)
    dl = t['d']
    if dl[1]:
        return set(), set(), []
    l = dl[0]
    kind = _kind_of_type(fn.local_ty(l))
    if kind is None:
        return set(), set(), []
    others = [d for d in fn.defs.get(l, []) if not (d[1] == 'C' and d[0] == call_bb)]
    for (b, k, payload) in others:
        # the local may also receive a definitely-negative value (`?` propagating None/Err, or an explicit
        # None/Err constructor), as the result slot of an inlined helper does: a positive test outcome can then
        # still only come from this call
        if k == 'C' and 'from_residual' in (fn.call_name(b) or ''):
            continue
        if k == 'A' and payload[0] == 'agg' and re.search(r'core::(option::Option::None|result::Result::Err)$', str(payload[1])):
            continue
        return set(), set(), []
    return test_edges(fn, {l: kind})


def field_flag_edges(fn, field_pred):
    """edges testing a boolean read of a struct field (field_pred on 'Type.field')"""
    fn = F(fn) if isinstance(fn, dict) else fn
    seeds = {}
    for l, dl in fn.defs.items():
        if len(dl) != 1:
            continue
        b, k, rv = dl[0]
        if k != 'A' or rv[0] != 'use':
            continue
        o = rv[1]
        if o[0] not in ('c', 'm'):
            continue
        fs = [p[1] for p in o[1][1] if isinstance(p, list) and p[0] == 'f']
        if fs and field_pred(fs[-1]) and fn.local_ty(l) == 'bool':
            seeds[l] = ('bool', True)
    if not seeds:
        return set(), set(), []
    return test_edges(fn, seeds)


def guarded(fn, sink_bb, permitting_edges):
    """sink unreachable from entry once permitting edges are removed"""
    fn = F(fn) if isinstance(fn, dict) else fn
    if not permitting_edges:
        return False
    return sink_bb not in fn.reach([0], removed_edges=permitting_edges)


def unguarded_path(fn, sink_bb, permitting_edges):
    fn = F(fn) if isinstance(fn, dict) else fn
    return fn.path(0, {sink_bb}, removed_edges=permitting_edges)


def compare_seeds(fn, pred):
    """seeds for boolean locals assigned from a comparison `bin(op, a, b)` accepted by
    pred(op, a, b, bb) -> parity (True if the local is true when the wanted condition holds,
    False if it is false then, None to skip)."""
    fn = F(fn) if isinstance(fn, dict) else fn
    seeds = {}
    for l, dl in fn.defs.items():
        if len(dl) != 1:
            continue
        b, k, rv = dl[0]
        if k != 'A' or rv[0] != 'bin' or rv[1] not in ('Eq', 'Ne', 'Lt', 'Le', 'Gt', 'Ge'):
            continue
        par = pred(rv[1], rv[2], rv[3], b)
        if par is None:
            continue
        seeds[l] = ('bool', bool(par))
    return seeds


def param_flag_edges(fn, name):
    """edges testing a boolean parameter / named local"""
    fn = F(fn) if isinstance(fn, dict) else fn
    seeds = {l: ('bool', True) for l in fn.local_of(name) if fn.local_ty(l) == 'bool'}
    if not seeds:
        return set(), set(), []
    return test_edges(fn, seeds)


def enum_variant_edges(fn, local_pred, variant_index):
    """edges of switches on `discriminant(L)` (L satisfying local_pred) that are taken when
    the value is the variant with the given index; and the complementary edges."""
    fn = F(fn) if isinstance(fn, dict) else fn
    pos, neg = set(), set()
    dl = {}
    for l, defs in fn.defs.items():
        if len(defs) == 1 and defs[0][1] == 'A' and defs[0][2][0] == 'discr':
            pl = defs[0][2][1]
            if all(p == '*' for p in pl[1]) and local_pred(pl[0]):
                dl[l] = True
    for b in fn.g:
        t = fn.term(b)
        if t['k'] != 'switch':
            continue
        l = op_local(t['d'])
        if l not in dl:
            continue
        explicit = {int(v): tb for v, tb in t['v']}
        if variant_index in explicit:
            pos.add((b, explicit[variant_index]))
            for v, tb in explicit.items():
                if v != variant_index:
                    neg.add((b, tb))
            neg.add((b, t['o']))
        else:
            pos.add((b, t['o']))
            for tb in explicit.values():
                neg.add((b, tb))
    both = pos & neg
    return pos - both, neg - both


def implied_edges(fn, seeds):
    """test_edges closed under implication: a boolean local every possibly-true definition of which derives from the
    seed with one parity (data: `x && !seed`) or sits behind edges on which the seed has that parity (control:
    `if !seed { flag = cond }`) can only be true when the seed has that parity; the true edge of a test of it is then an
    edge of that parity. -> (pos_edges, neg_edges)"""
    fn = F(fn) if isinstance(fn, dict) else fn
    seeds = dict(seeds)
    while True:
        pos, neg, _ = test_edges(fn, seeds, implications=True)
        d = derive(fn, seeds, implications=True)
        grew = False
        for l, dl in fn.defs.items():
            if l in d or fn.local_ty(l) != 'bool':
                continue
            nonfalse = [b for (b, k, rv) in dl if not (k == 'A' and rv[0] == 'use' and rv[1][0] == 'k' and 'false' in str(rv[1][2]))]
            if not nonfalse or len(nonfalse) == len(dl) and len(dl) == 1 and False:
                continue
            if neg and all(guarded(fn, b, neg) for b in nonfalse):
                seeds[l] = ('imp', False)
                grew = True
            elif pos and all(guarded(fn, b, pos) for b in nonfalse):
                seeds[l] = ('imp', True)
                grew = True
        if not grew:
            return pos, neg
