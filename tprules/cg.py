"""P1 call graph (over-approximate) and P7 field read/write sets."""
import collections
import re

from .cfg import F, place_fields

_TYTOK = re.compile(r'[A-Za-z_][A-Za-z0-9_]*(?:::[A-Za-z_][A-Za-z0-9_]*)*')
_LIFETIME = re.compile(r"'[a-z_][a-z0-9_]*\s*")
_FORALL = re.compile(r'for<[^>]*>\s*')


def norm_sig(ty):
    """normalise a fn pointer / FnDef type string to 'fn(args) -> ret'"""
    s = _FORALL.sub('', ty)
    s = _LIFETIME.sub('', s)
    i = s.find(' {')
    if i >= 0:
        s = s[:i]
    s = s.replace('unsafe ', '').replace('extern "C" ', '').replace('extern "Rust" ', '')
    return s.strip()


def _head(ty):
    t = ty
    while t.startswith('&'):
        t = t[1:].lstrip()
        if t.startswith('mut '):
            t = t[4:]
    i = t.find('<')
    return t if i < 0 else t[:i]


def _is_param_or_dyn(ty):
    t = ty.strip()
    if t.startswith('dyn ') or t.startswith('&dyn ') or t.startswith('&mut dyn ') or 'dyn ' in t.split('<')[0]:
        return True
    if t.startswith('impl '):
        return True
    h = _head(t)
    return '::' not in h and h[:1].isupper() and h not in ('String', 'Vec', 'Box', 'Option', 'Result')


def iter_fn_consts(op):
    if isinstance(op, list) and op and op[0] == 'k' and isinstance(op[2], str) and op[2].startswith('fn:'):
        yield op[2][3:], op[1]


class CallGraph:
    def __init__(self, fx):
        self.fx = fx
        self.out = collections.defaultdict(set)        # caller -> callees (ids, local or extern)
        self.sites = collections.defaultdict(list)      # callee -> [(caller, bb)]
        self.direct_sites = collections.defaultdict(list)   # callee -> [(caller, bb)] explicit call terminators / trait dispatch only
        self.trait_impls = collections.defaultdict(set)  # trait method -> impl methods
        self.trait_impls_by_self = collections.defaultdict(lambda: collections.defaultdict(set))
        self.by_self = collections.defaultdict(set)     # self type head -> impl methods (all traits)
        self.addr_taken = collections.defaultdict(set)  # normalised sig -> fn ids
        self._build()

    def _build(self):
        fx = self.fx
        for im in fx.impls:
            h = _head(im['self'])
            for t, m in im['methods']:
                self.trait_impls[t].add(m)
                self.trait_impls_by_self[t][h].add(m)
                self.by_self[h].add(m)
        # pass 1: address-taken fns (fn items used as values, incl. as call arguments)
        pending_indirect = []
        for k, rec in fx.fns.items():
            fn = F(rec)
            for i, bb in enumerate(rec['bbs']):
                for s in bb['s']:
                    if s[0] != 'A':
                        continue
                    rv = s[2]
                    ops = []
                    if rv[0] == 'use':
                        ops = [rv[1]]
                    elif rv[0] == 'cast':
                        ops = [rv[2]]
                    elif rv[0] == 'agg':
                        ops = rv[2]
                        if rv[1].startswith('closure:'):
                            self._edge(k, rv[1][8:], i)
                    elif rv[0] == 'repeat':
                        ops = [rv[1]]
                    for o in ops:
                        for fid, fty in iter_fn_consts(o):
                            self._edge(k, fid, i)
                            self.addr_taken[norm_sig(fty)].add(fid)
                t = bb['t']
                if t['k'] != 'call':
                    continue
                for a in t['a']:
                    for fid, fty in iter_fn_consts(a):
                        self._edge(k, fid, i)
                        self.addr_taken[norm_sig(fty)].add(fid)
                f = t['f']
                if 'def' not in f:
                    pending_indirect.append((k, i, f))
                    continue
                d = f['def']
                inst = f.get('inst')
                tgt = inst or d
                self._edge(k, tgt, i)
                self.direct_sites[tgt].append((k, i))
                if inst and inst != d:
                    # keep the declared callee visible for who-calls queries on trait methods
                    self.sites[d].append((k, i))
                    self.direct_sites[d].append((k, i))
                if f.get('trait') and not inst:
                    ga = f.get('ga') or []
                    selfty = ga[0] if ga else ''
                    if d in self.trait_impls:
                        if _is_param_or_dyn(selfty) or not selfty:
                            for m in self.trait_impls[d]:
                                self._edge(k, m, i)
                                self.direct_sites[m].append((k, i))
                        else:
                            for m in self.trait_impls_by_self[d].get(_head(selfty), ()):
                                self._edge(k, m, i)
                                self.direct_sites[m].append((k, i))
                if tgt not in fx.fns:
                    # extern (possibly generic) callee: trait impls of local types among the
                    # generic arguments may be invoked from inside it
                    for g in f.get('ga') or []:
                        for tok in set(_TYTOK.findall(g)):
                            ms = self.by_self.get(tok)
                            if ms:
                                for m in ms:
                                    self._edge(k, m, i)
        # pass 2: indirect calls -> address-taken fns with the same normalised signature
        for k, i, f in pending_indirect:
            sig = norm_sig(f.get('ty', ''))
            for fid in self.addr_taken.get(sig, ()):
                self._edge(k, fid, i)

    def _edge(self, a, b, bb):
        self.out[a].add(b)
        self.sites[b].append((a, bb))

    # ---- queries --------------------------------------------------------
    def reach(self, roots, stop=None):
        seen = set()
        st = list(roots)
        while st:
            n = st.pop()
            if n in seen:
                continue
            seen.add(n)
            if stop is not None and stop(n):
                continue
            for m in self.out.get(n, ()):
                if m not in seen:
                    st.append(m)
        return seen

    def chain(self, root, targets, stop=None):
        """one shortest call chain root -> ... -> t (t in targets / pred), or None"""
        is_t = targets if callable(targets) else (lambda n: n in targets)
        prev = {root: None}
        q = collections.deque([root])
        while q:
            n = q.popleft()
            if is_t(n) and n != root:
                out = []
                while n is not None:
                    out.append(n)
                    n = prev[n]
                return out[::-1]
            if stop is not None and stop(n) and n != root:
                continue
            for m in sorted(self.out.get(n, ())):
                if m not in prev:
                    prev[m] = n
                    q.append(m)
        return None

    def callers(self, callee_pred, synthetic=False):
        """[(caller, bb, callee)] for every call edge whose callee satisfies pred. By default
        only explicit call terminators and trait dispatch count (who-may-call rules); with
        synthetic=True also closure construction, fn-item uses and the "extern generic code
        may call any impl method of a local type" over-approximation."""
        out = []
        pred = callee_pred if callable(callee_pred) else (lambda n: n == callee_pred)
        table = self.sites if synthetic else self.direct_sites
        for c, lst in table.items():
            if pred(c):
                for (a, bb) in lst:
                    out.append((a, bb, c))
        return out

    def sccs(self, nodes):
        from .cfg import _sccs
        ns = set(nodes)
        g = {n: [m for m in self.out.get(n, ()) if m in ns] for n in ns}
        return _sccs(g)


# ---- P7 ----------------------------------------------------------------------------

def field_writes(rec):
    """set of field chains (tuples of 'Type.field') assigned in this body; and the set
    mutably borrowed."""
    w, mb = set(), set()
    for bb in rec['bbs']:
        if bb['c']:
            continue
        for s in bb['s']:
            if s[0] == 'A':
                fs = place_fields(s[1])
                if fs:
                    w.add(tuple(fs))
                rv = s[2]
                if rv[0] == 'ref' and 'Mut' in rv[1]:
                    fs = place_fields(rv[2])
                    if fs:
                        mb.add(tuple(fs))
                if rv[0] == 'raw':
                    fs = place_fields(rv[1])
                    if fs:
                        mb.add(tuple(fs))
            elif s[0] == 'D':
                fs = place_fields(s[1])
                if fs:
                    w.add(tuple(fs))
        t = bb['t']
        if t['k'] == 'call':
            fs = place_fields(t['d'])
            if fs:
                w.add(tuple(fs))
    return w, mb


def field_reads(rec):
    r = set()

    def op(o):
        if o and o[0] in ('c', 'm'):
            fs = place_fields(o[1])
            if fs:
                r.add(tuple(fs))
    for bb in rec['bbs']:
        if bb['c']:
            continue
        for s in bb['s']:
            if s[0] != 'A':
                continue
            rv = s[2]
            k = rv[0]
            if k == 'use':
                op(rv[1])
            elif k == 'cast':
                op(rv[2])
            elif k == 'bin':
                op(rv[2]); op(rv[3])
            elif k == 'un':
                op(rv[2])
            elif k in ('ref', 'raw'):
                fs = place_fields(rv[2] if k == 'ref' else rv[1])
                if fs:
                    r.add(tuple(fs))
            elif k == 'discr':
                fs = place_fields(rv[1])
                if fs:
                    r.add(tuple(fs))
            elif k == 'agg':
                for o in rv[2]:
                    op(o)
            elif k == 'repeat':
                op(rv[1])
        t = bb['t']
        if t['k'] == 'call':
            for a in t['a']:
                op(a)
        elif t['k'] == 'switch':
            op(t['d'])
    return r
