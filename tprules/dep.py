"""Backward data-dependence closure of a MIR operand inside one body: every struct field read, call result,
parameter and constant the value can depend on, through all operators and all call arguments (calls are
treated as functions of their arguments)."""
from .cfg import place_fields


class Deps:
    __slots__ = ('fields', 'calls', 'args', 'locals', 'consts', 'closures')

    def __init__(self):
        self.fields, self.calls, self.args, self.locals, self.consts = set(), set(), set(), set(), set()
        self.closures = set()      # ids of closures whose value flows in (their bodies run inside the adaptors they are passed to)


def deps(fn, o, limit=800):
    d = Deps()
    st = []
    argc = fn.r['argc']

    def push(op):
        if op[0] in ('c', 'm'):
            st.append(op[1][0])
            for f in place_fields(op[1]):
                d.fields.add(f)
        elif op[0] == 'k':
            d.consts.add(op[2])
    push(o)
    while st and len(d.locals) < limit:
        l = st.pop()
        if l in d.locals:
            continue
        d.locals.add(l)
        if 1 <= l <= argc:
            d.args.add(l)
        for (b, k, payload) in fn.defs.get(l, []):
            if k == 'A':
                rv = payload
                if rv[0] == 'use':
                    push(rv[1])
                elif rv[0] in ('cast', 'un'):
                    push(rv[2])
                elif rv[0] == 'bin':
                    push(rv[2]); push(rv[3])
                elif rv[0] == 'ref':
                    push(['c', rv[2]])
                elif rv[0] == 'agg':
                    if isinstance(rv[1], str) and rv[1].startswith('closure:'):
                        d.closures.add(rv[1][len('closure:'):])
                    for x in rv[2]:
                        push(x)
                elif rv[0] == 'discr':
                    push(['c', rv[1]])
            elif k == 'C':
                d.calls.add((b, fn.call_name(b) or 'indirect'))
                for a in payload['a']:
                    push(a)
    return d
