"""Virtual inlining on the fact level, so that the rules see the same shapes after an extract-helper or
closure-style refactoring.

Two transformations, both semantics-preserving (unwinding is ignored, as everywhere in tprules):

1. *New helpers.*  /verif/baseline_fns.json lists every function id of the tree the rules were written
   against.  A function that is not in that list (a helper introduced later), is small and not recursive, is
   inlined into each of its direct call sites; when all its call sites could be inlined and nothing else
   refers to it, its standalone body is dropped.  The rules then analyse the callers as if the helper had
   never been extracted.  Functions of the baseline keep their identity (rules anchor on them).

2. *Error-path closures.*  `res.map_err(|e| ...)` with a closure that calls something is lowered to
   `match res { Ok(v) => Ok(v), Err(e) => Err(closure(e)) }` with the closure body inlined, so that a call made
   in the closure (for example the fault recorder) lies on the error edge of the caller's CFG.
"""
import copy
import json
import os
import re

MAX_BLOCKS = 120
HERE = os.path.dirname(os.path.dirname(os.path.abspath(__file__)))
BASELINE = os.path.join(HERE, 'baseline_fns.json')


_BL = None


def _load_baseline_file():
    global _BL
    if _BL is None:
        try:
            with open(BASELINE) as f:
                _BL = json.load(f)
        except OSError:
            _BL = {}
    return _BL


def load_baseline():
    bl = _load_baseline_file()
    return set(bl['functions']) if bl.get('functions') else None


def _tail(fid):
    """`Type::method` / `fn name`: the part of an id that survives a move to another module"""
    m = re.search(r'<impl ([^>]*(?:<[^>]*>)?[^>]*)>::(\w+)$', fid)
    if m:
        return (m.group(1).split('::')[-1].split('<')[0], m.group(2))
    parts = fid.split('::')
    return (parts[-2] if len(parts) > 1 and parts[-2][:1].isupper() else '', parts[-1])


def recover_moved(fx, log=None):
    """A baseline function that disappeared while exactly one new function has the same name (and owner type) and
    the same signature was moved (another module / file): give it its baseline id back, everywhere."""
    bl = _load_baseline_file()
    sigs = bl.get('signatures') or {}
    if not sigs:
        return []
    base = set(bl['functions'])
    crates = {r.get('crate') for r in fx.fns.values()}
    cur = {k for k, r in fx.fns.items() if r.get('kind') != 'Closure'}
    missing = [b for b in base - cur if b.split('::')[0].lstrip('<') in crates or b.startswith('<')]
    new = [n for n in cur - base]
    by_tail = {}
    for n in new:
        by_tail.setdefault(_tail(n), []).append(n)
    ren = {}
    for b in missing:
        cands = [n for n in by_tail.get(_tail(b), []) if fx.fns[n]['locals'][:fx.fns[n]['argc'] + 1] == sigs.get(b)
                 and n.split('::')[0] == b.split('::')[0]]
        if len(cands) == 1 and cands[0] not in ren.values():
            ren[b] = cands[0]
    # renamed in place: same module / owner, same signature, and essentially the same callees as the baseline function
    # had (Jaccard >= 0.7 over at least three callees); exactly one such candidate
    bcallees = bl.get('callees') or {}

    def _owner(fid):
        return fid.rsplit('::', 1)[0]

    def _callees_now(fid):
        cs = set()
        for rid in [fid] + list(fx.closures_of(fid)):
            r_ = fx.fns.get(rid)
            if r_ is None:
                continue
            for bb in r_['bbs']:
                t = bb['t']
                if t['k'] == 'call' and not bb['c']:
                    n_ = t['f'].get('inst') or t['f'].get('def')
                    if n_:
                        cs.add(n_)
        return cs
    taken = set(ren.values())
    for _round in range(3):
        grew = False
        back_now = {n: b for b, n in ren.items()}
        for b in missing:
            if b in ren or not bcallees.get(b):
                continue
            want = set(bcallees[b])
            # few callees: only an exact match counts
            need = 0.7 if len(want) >= 3 else 1.0
            cands = []
            for n in new:
                if n in taken or _owner(n) != _owner(b) or fx.fns[n]['locals'][:fx.fns[n]['argc'] + 1] != sigs.get(b):
                    continue
                # calls of the function to itself, and to functions already recognised, change name with them
                have = {b if x == n else back_now.get(x, x) for x in _callees_now(n)}
                j = len(want & have) / float(len(want | have) or 1)
                if j >= need:
                    cands.append(n)
            if len(cands) == 1:
                ren[b] = cands[0]
                taken.add(cands[0])
                grew = True
        if not grew:
            break
    if not ren:
        return []
    back = {n: b for b, n in ren.items()}

    def fix(x):
        if not isinstance(x, str):
            return x
        for n, b in back.items():
            if x == n:
                return b
            if x.startswith(n + '::{closure'):
                return b + x[len(n):]
            if x.startswith('closure:' + n + '::{closure'):
                return 'closure:' + b + x[len('closure:' + n):]
        return x
    newfns = {}
    for k, r in fx.fns.items():
        r['id'] = fix(r['id'])
        if r.get('parent'):
            r['parent'] = fix(r['parent'])
        for bb in r['bbs']:
            t = bb['t']
            if t['k'] == 'call':
                f = t['f']
                if f.get('def'):
                    f['def'] = fix(f['def'])
                if f.get('inst'):
                    f['inst'] = fix(f['inst'])
            for s_ in bb['s']:
                if s_[0] == 'A' and s_[2][0] == 'agg' and isinstance(s_[2][1], str) and s_[2][1].startswith('closure:'):
                    s_[2][1] = fix(s_[2][1])
        newfns[r['id']] = r
    fx.fns.clear()
    fx.fns.update(newfns)
    for m in fx.matches:
        m['fn'] = fix(m['fn'])
    for m in fx.lets:
        m['fn'] = fix(m['fn'])
    for im in fx.impls:
        im['methods'] = [[a, fix(b)] for a, b in im.get('methods', [])]
    fx._m_by_fn = None
    fx._l_by_fn = None
    if log is not None:
        print('tprules: moved / renamed functions recognised: %s' % ', '.join('%s <- %s' % (b.split('::')[-1], n) for b, n in ren.items()), file=log)
    return sorted(ren.items())


def _is_place(x):
    return isinstance(x, list) and len(x) == 2 and isinstance(x[0], int) and not isinstance(x[0], bool) and isinstance(x[1], list)


class _Mapper:
    def __init__(self, loff, boff):
        self.loff, self.boff = loff, boff

    def place(self, p):
        return [p[0] + self.loff, [self.proj(e) for e in p[1]]]

    def proj(self, e):
        if isinstance(e, list) and len(e) == 2 and e[0] == 'i' and isinstance(e[1], int):
            return ['i', e[1] + self.loff]
        return copy.deepcopy(e)

    def any(self, x):
        if isinstance(x, list):
            if _is_place(x):
                return self.place(x)
            if len(x) == 2 and x[0] in ('c', 'm') and _is_place(x[1]):
                return [x[0], self.place(x[1])]
            if x and x[0] == 'k':
                return list(x)
            return [self.any(e) for e in x]
        return x

    def stmt(self, s):
        if s[0] == 'A':
            return ['A', self.place(s[1]), self.any(s[2])] + list(s[3:])
        if s[0] == 'D':
            return ['D', self.place(s[1])] + list(s[2:])
        return self.any(s)

    def term(self, t):
        t = dict(t)
        k = t['k']
        if k == 'call':
            t['a'] = [self.any(a) for a in t['a']]
            t['d'] = self.place(t['d'])
            t['f'] = dict(t['f'])
            if 'ind' in t['f']:
                t['f']['ind'] = self.any(t['f']['ind'])
            t['t'] = None if t.get('t') is None else t['t'] + self.boff
            t['u'] = None
        elif k == 'switch':
            t['d'] = self.any(t['d'])
            t['v'] = [[v, b + self.boff] for v, b in t['v']]
            t['o'] = None if t.get('o') is None else t['o'] + self.boff
        elif k == 'goto':
            t['t'] = t['t'] + self.boff
        elif k == 'assert':
            t['c'] = self.any(t['c'])
            t['ops'] = [self.any(o) for o in t.get('ops', [])]
            t['t'] = None if t.get('t') is None else t['t'] + self.boff
        elif k == 'drop':
            t['p'] = self.place(t['p'])
            t['t'] = None if t.get('t') is None else t['t'] + self.boff
            t['u'] = None
        return t


def _splice(caller, b, callee, args, dest, cont, line, ret_wrap=None):
    """Append a copy of callee's body to caller; block b gets the argument assignments and jumps to the copy;
    every return of the copy assigns dest (through ret_wrap(op) -> rvalue if given) and jumps to cont."""
    loff = len(caller['locals'])
    boff = len(caller['bbs'])
    m = _Mapper(loff, boff)
    caller['locals'].extend(callee['locals'])
    blk = caller['bbs'][b]
    for i, a in enumerate(args):
        blk['s'].append(['A', [loff + 1 + i, []], ['use', a], line])
    blk['t'] = {'k': 'goto', 't': boff}
    for cb in callee['bbs']:
        nb = {'c': cb['c'], 's': [m.stmt(s) for s in cb['s']], 't': None}
        t = cb['t']
        if t['k'] == 'ret':
            retop = ['m', [loff, []]]
            rv = ret_wrap(retop) if ret_wrap else ['use', retop]
            nb['s'].append(['A', copy.deepcopy(dest), rv, line])
            nb['t'] = {'k': 'goto', 't': cont} if cont is not None else {'k': 'unreach'}
        else:
            nb['t'] = m.term(t)
        caller['bbs'].append(nb)
    caller.setdefault('inlined', []).append(callee['id'])
    # for rules that judge a helper as a unit (e.g. a comparison predicate): where it was spliced and with what
    caller.setdefault('spliced', []).append({'helper': callee['id'], 'block': b, 'entry': boff, 'args': copy.deepcopy(args), 'dest': copy.deepcopy(dest)})
    if ret_wrap is None and cont is not None:
        _thread_returns(caller, callee, loff, boff, dest, cont, line)
        # when every return was threaded past the continuation, the continuation (and the return blocks of the copy that
        # led to it) are dead: cut off whatever is no longer reachable from the entry, or it shows up as a second
        # entry of whatever loop it sat in
        def _succ(t_):
            k_ = t_['k']
            out = [t_.get('t')] if k_ in ('goto', 'call', 'drop', 'assert') else ([tb for _, tb in t_['v']] + [t_.get('o')] if k_ == 'switch' else [])
            if t_.get('u') is not None:
                out.append(t_['u'])
            return [y for y in out if y is not None]
        seen, work = set(), [0]
        while work:
            x = work.pop()
            if x in seen or x >= len(caller['bbs']):
                continue
            seen.add(x)
            work.extend(_succ(caller['bbs'][x]['t']))
        for x in range(boff if False else 0, len(caller['bbs'])):
            if x not in seen and caller['bbs'][x]['t']['k'] != 'unreach':
                caller['bbs'][x]['t'] = {'k': 'unreach'}
                caller['bbs'][x]['s'] = []


_VARIANT = {'None': 0, 'Some': 1, 'Ok': 0, 'Err': 1}
_CF = {'Ok': 0, 'Some': 0, 'Err': 1, 'None': 1}     # ControlFlow::Continue = 0, Break = 1


def _thread_returns(caller, callee, loff, boff, dest, cont, line):
    """Keep the correlation between *which* return of the inlined body was taken and the variant test the caller
    makes on the result: when the continuation is `x = discriminant(dest); switch x`, every return whose value
    is a known variant (an Option/Result constructor, or `?` propagating None/Err) jumps straight to the
    matching arm."""
    if dest[1]:
        return
    C = caller['bbs'][cont]
    # continuation `?`: dest goes through Try::branch and the ControlFlow discriminant is switched on
    via_try = None
    if C['t']['k'] == 'call' and re.search(r'Try>?::branch$', (C['t']['f'].get('inst') or C['t']['f'].get('def') or '')) and not C['s'] and C['t'].get('t') is not None:
        a0 = C['t']['a'][0] if C['t']['a'] else None
        if a0 and a0[0] in ('c', 'm') and a0[1] == [dest[0], []] or (a0 and a0[0] in ('c', 'm') and _copy_of(caller, a0[1][0], dest[0])):
            S = caller['bbs'][C['t']['t']]
            br = C['t']['d']
            if S['t']['k'] == 'switch' and S['t']['d'][0] in ('c', 'm') and not S['t']['d'][1][1] and not br[1]:
                xl = S['t']['d'][1][0]
                if any(st[0] == 'A' and st[1] == [xl, []] and st[2][0] == 'discr' and st[2][1] == [br[0], []] for st in S['s']) \
                        and all(st[0] == 'A' and st[2][0] in ('use', 'ref', 'discr', 'cast') for st in S['s']):
                    via_try = (C, S)
    if via_try is None and (C['t']['k'] != 'switch' or C['t']['d'][0] not in ('c', 'm') or C['t']['d'][1][1]):
        return
    if via_try is not None:
        _thread_returns_try(caller, callee, loff, boff, dest, via_try, line)
        return
    xl = C['t']['d'][1][0]
    ok_shape = False
    for s in C['s']:
        if s[0] == 'A' and s[1] == [xl, []] and s[2][0] == 'discr' and s[2][1] == [dest[0], []]:
            ok_shape = True
        elif s[0] == 'A' and s[2][0] in ('use', 'ref', 'discr', 'cast'):
            continue
        else:
            return
    if not ok_shape:
        return
    explicit = {int(v): tb for v, tb in C['t']['v']}
    ret0 = loff          # the callee's _0 in the caller's numbering
    rets = [boff + i for i, cb in enumerate(callee['bbs']) if cb['t']['k'] == 'ret']
    region = range(boff, boff + len(callee['bbs']))
    for R in rets:
        if len(caller['bbs'][R]['s']) != 1:      # only the appended `dest = _0`
            continue
        # statement-free goto blocks leading to R are looked through
        chain = {R}
        grew = True
        while grew:
            grew = False
            for X in region:
                xb = caller['bbs'][X]
                if X not in chain and not xb['c'] and not xb['s'] and xb['t']['k'] == 'goto' and xb['t']['t'] in chain:
                    chain.add(X)
                    grew = True
        for P in region:
            pb = caller['bbs'][P]
            pt = pb['t']
            if pb['c'] or P in chain:
                continue
            goes = (pt['k'] == 'goto' and pt['t'] in chain) or (pt['k'] == 'call' and pt.get('t') in chain)
            if not goes:
                continue
            var = None
            if pt['k'] == 'call' and pt['d'] == [ret0, []]:
                nm = pt['f'].get('def') or ''
                if 'from_residual' in nm:
                    ty = caller['locals'][ret0]
                    var = 'None' if ty.startswith('core::option::Option<') else 'Err' if ty.startswith('core::result::Result<') else None
            elif pt['k'] == 'goto':
                for st in reversed(pb['s']):
                    if st[0] == 'A' and st[1] == [ret0, []]:
                        if st[2][0] == 'agg':
                            m = re.search(r'core::(option::Option|result::Result)::(None|Some|Ok|Err)$', str(st[2][1]))
                            if m:
                                var = m.group(2)
                        break
            if var is None:
                continue
            tgt = explicit.get(_VARIANT[var], C['t'].get('o'))
            if tgt is None:
                continue
            nb = {'c': 0, 's': [['A', copy.deepcopy(dest), ['use', ['m', [ret0, []]]], line]] + copy.deepcopy(C['s']),
                  't': {'k': 'goto', 't': tgt}}
            caller['bbs'].append(nb)
            ni = len(caller['bbs']) - 1
            if pt['k'] == 'goto':
                pt['t'] = ni
            else:
                pt['t'] = ni


def _copy_of(rec, l, src):
    """l is assigned exactly once, from a plain move/copy of src"""
    defs = [st for bb in rec['bbs'] for st in bb['s'] if st[0] == 'A' and st[1] == [l, []]]
    return len(defs) == 1 and defs[0][2][0] == 'use' and defs[0][2][1][0] in ('c', 'm') and defs[0][2][1][1] == [src, []]


def _definers(caller, callee, loff, boff):
    """-> list of (P, variant) for blocks of the spliced body that define the return value with a known variant and
    reach a return through statement-free gotos; plus the chain sets per return"""
    ret0 = loff
    region = range(boff, boff + len(callee['bbs']))
    rets = [boff + i for i, cb in enumerate(callee['bbs']) if cb['t']['k'] == 'ret']
    out = []
    for R in rets:
        if len(caller['bbs'][R]['s']) != 1:
            continue
        chain = {R}
        grew = True
        while grew:
            grew = False
            for X in region:
                xb = caller['bbs'][X]
                if X not in chain and not xb['c'] and not xb['s'] and xb['t']['k'] == 'goto' and xb['t']['t'] in chain:
                    chain.add(X)
                    grew = True
        preds = {}
        for X in region:
            xb = caller['bbs'][X]
            if xb['c']:
                continue
            xt = xb['t']
            succ = [xt['t']] if xt['k'] in ('goto', 'call') and xt.get('t') is not None else ([tb for _, tb in xt['v']] + [xt.get('o')] if xt['k'] == 'switch' else [])
            for y in succ:
                preds.setdefault(y, []).append(X)

        def variant_at_end(P, depth=0):
            """variant of the return value when control leaves block P (None = unknown)"""
            pb = caller['bbs'][P]
            pt = pb['t']
            if pt['k'] == 'call' and pt['d'] == [ret0, []]:
                if 'from_residual' in (pt['f'].get('def') or ''):
                    ty = caller['locals'][ret0]
                    return 'None' if ty.startswith('core::option::Option<') else 'Err' if ty.startswith('core::result::Result<') else None
                return None
            if pt['k'] == 'call' and pt['d'][0] == ret0:
                return None
            for st in reversed(pb['s']):
                if st[0] == 'A' and st[1][0] == ret0:
                    if st[1][1] == [] and st[2][0] == 'agg':
                        m = re.search(r'core::(option::Option|result::Result)::(None|Some|Ok|Err)$', str(st[2][1]))
                        if m:
                            return m.group(2)
                    return None
            # the block itself does not touch the return value: it is what its only predecessor left
            ps = preds.get(P, [])
            if len(ps) == 1 and depth < 4 and ps[0] in region and caller['bbs'][ps[0]]['t']['k'] in ('goto', 'call'):
                return variant_at_end(ps[0], depth + 1)
            return None
        for P in region:
            pb = caller['bbs'][P]
            pt = pb['t']
            if pb['c'] or P in chain:
                continue
            goes = (pt['k'] == 'goto' and pt['t'] in chain) or (pt['k'] == 'call' and pt.get('t') in chain)
            if not goes:
                continue
            var = variant_at_end(P)
            if var is not None:
                out.append((P, var))
    return out


def _thread_returns_try(caller, callee, loff, boff, dest, via_try, line):
    C, S = via_try
    explicit = {int(v): tb for v, tb in S['t']['v']}
    for P, var in _definers(caller, callee, loff, boff):
        tgt = explicit.get(_CF[var], S['t'].get('o'))
        if tgt is None:
            continue
        n2 = {'c': 0, 's': copy.deepcopy(S['s']), 't': {'k': 'goto', 't': tgt}}
        caller['bbs'].append(n2)
        i2 = len(caller['bbs']) - 1
        ct = copy.deepcopy(C['t'])
        ct['t'] = i2
        ct['u'] = None
        n1 = {'c': 0, 's': [['A', copy.deepcopy(dest), ['use', ['m', [loff, []]]], line]], 't': ct}
        caller['bbs'].append(n1)
        i1 = len(caller['bbs']) - 1
        caller['bbs'][P]['t']['t'] = i1


def _reaches_self(fx, fid, limit=400):
    seen, st = set(), [fid]
    n = 0
    while st and n < limit:
        x = st.pop()
        n += 1
        rec = fx.fns.get(x)
        if rec is None:
            continue
        for bb in rec['bbs']:
            t = bb['t']
            if t['k'] == 'call':
                d = t['f'].get('inst') or t['f'].get('def')
                if d == fid:
                    return True
                if d and d not in seen and d in fx.fns:
                    seen.add(d)
                    st.append(d)
    return False


def _callee_id(t):
    f = t['f']
    return f.get('inst') or f.get('def')


def inline_new_helpers(fx, baseline, log=None):
    """-> list of (helper id, number of inlined sites, dropped?)"""
    if baseline is None:
        return []
    report = []
    new = [k for k, r in fx.fns.items() if k not in baseline and r.get('kind') != 'Closure'
           and not _under_new_parent_only(k, fx, baseline)]
    # innermost first: a new helper calling another new helper
    new.sort(key=lambda k: len(fx.fns[k]['bbs']))
    for hid in new:
        h = fx.fns.get(hid)
        # one level of the helper's own body is spliced in, so only direct self-recursion has to be excluded
        if h is None or len(h['bbs']) > MAX_BLOCKS or any(bb['t']['k'] == 'call' and _callee_id(bb['t']) == hid for bb in h['bbs']):
            continue
        if h.get('kind') not in ('Fn', 'AssocFn', None):
            continue
        # a baseline function that was only *renamed or moved* keeps working through its structure; new
        # helpers are recognised by being called from baseline functions
        sites = []
        other_refs = False
        for k, r in fx.fns.items():
            if k == hid:
                continue
            for i, bb in enumerate(r['bbs']):
                if bb['c']:
                    continue
                t = bb['t']
                if t['k'] == 'call' and _callee_id(t) == hid:
                    sites.append((k, i))
                else:
                    for s in bb['s']:
                        if s[0] == 'A' and hid in json.dumps(s[2]):
                            other_refs = True
        if not sites:
            continue
        for (k, i) in sites:
            r = fx.fns[k]
            t = r['bbs'][i]['t']
            _splice(r, i, h, t['a'], t['d'], t.get('t'), t.get('line', 0))
        dropped = False
        if not other_refs and not str(h.get('vis', '')).startswith('Public'):
            if not hasattr(fx, 'dropped_helpers'):
                fx.dropped_helpers = {}
            fx.dropped_helpers[hid] = h
            del fx.fns[hid]
            dropped = True
        report.append((hid, len(sites), dropped))
    return report


def _under_new_parent_only(k, fx, baseline):
    return False


_MAP_ERR = re.compile(r'^core::result::Result::<T, E>::map_err$')


def lower_map_err(fx):
    """-> number of lowered sites"""
    n = 0
    for k in list(fx.fns):
        r = fx.fns[k]
        for i in range(len(r['bbs'])):
            bb = r['bbs'][i]
            if bb['c']:
                continue
            t = bb['t']
            if t['k'] != 'call' or not _MAP_ERR.match(t['f'].get('def') or '') or len(t['a']) != 2:
                continue
            res, clo = t['a']
            if res[0] not in ('c', 'm') or clo[0] not in ('c', 'm') or clo[1][1] or res[1][1]:
                continue
            cid = None
            for bb2 in r['bbs']:
                for s in bb2['s']:
                    if s[0] == 'A' and s[1] == [clo[1][0], []] and s[2][0] == 'agg' and str(s[2][1]).startswith('closure:'):
                        cid = s[2][1][len('closure:'):]
            c = fx.fns.get(cid) if cid else None
            if c is None or len(c['bbs']) > MAX_BLOCKS or c.get('argc') != 2:
                continue
            if not any(b2['t']['k'] == 'call' and not b2['c'] for b2 in c['bbs']):
                continue        # `|_| Error::X`: nothing happens in the closure
            line = t.get('line', 0)
            rl = res[1][0]
            # B: test res; Ok -> M; Err -> closure body (result discarded) -> M; M: the original map_err call.
            # The value still flows through the original call (so result tests further down keep working); the
            # closure's calls now lie on the error edge.
            base = len(r['locals'])
            r['locals'].extend(['isize', '?', '?'])
            dn, errv, sink = base, base + 1, base + 2
            m_b = len(r['bbs'])
            err_b = m_b + 1
            orig_t = bb['t']
            bb['s'].append(['A', [dn, []], ['discr', [rl, []]], line])
            bb['t'] = {'k': 'switch', 'd': ['m', [dn, []]], 'v': [[0, m_b], [1, err_b]], 'o': err_b, 'line': line}
            r['bbs'].append({'c': 0, 's': [], 't': orig_t})
            r['bbs'].append({'c': 0, 's': [
                ['A', [errv, []], ['use', ['c', [rl, [['d', 'Err'], ['f', 'core::result::Result.1']]]]], line]],
                't': {'k': 'goto', 't': 0}})
            _splice(r, err_b, c, [['c', clo[1]], ['m', [errv, []]]], [sink, []], m_b, line)
            n += 1
    return n


def apply(fx, log=None):
    moved = recover_moved(fx, log)
    info = {'map_err_lowered': lower_map_err(fx), 'helpers': [], 'moved': moved}
    bl = load_baseline()
    if bl is not None:
        info['helpers'] = inline_new_helpers(fx, bl, log)
    if log is not None and (info['helpers'] or info['map_err_lowered']):
        print('tprules: virtual inlining: %d map_err closures lowered; new helpers inlined: %s' % (
            info['map_err_lowered'], ', '.join('%s (%d sites%s)' % (h.split('::')[-1], n, ', dropped' if d else '') for h, n, d in info['helpers']) or 'none'), file=log)
    return info
