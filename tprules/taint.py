"""P6 local taint: untrusted counts/sizes must not size an allocation.

Flow-insensitive forward closure over one body.  A local becomes tainted when it is assigned
from a source (a reader call result, a field read of a designated untrusted struct) or from a
tainted operand through copies, casts, arithmetic, `From/Into`, `Try::branch` payloads,
`unwrap*`/`ok_or*`/`map_err` and projections.  Sanitisers (the repository's idioms):
`min`/`clamp` results, `checked_*` results, `try_from` into a narrower type is *not* a
sanitiser (u32::MAX still fits usize).
"""
import re
from .cfg import F, op_base

SAN = re.compile(r'::min$|::clamp$|cmp::min$|::checked_\w+$|::saturating_sub$')
PASS = re.compile(r'Try>::branch$|From<[^>]*>( for [^>]+)?>::from$|Into<[^>]*>( for [^>]+)?>::into$|TryFrom<.*>::try_from$|TryInto<.*>::try_into$|'
                  r'(Option|Result)::<.*>::(unwrap|expect|unwrap_or|unwrap_or_default|unwrap_or_else|ok_or|ok_or_else|map_err|ok|copied|cloned)$|'
                  r'::clone$|core::hint::must_use$|::next_power_of_two$|::max$|::pow$|::wrapping_\w+$|::saturating_(add|mul)$')
ALLOC = re.compile(r'Vec::<.*>::(with_capacity|reserve|reserve_exact|resize|resize_with)$|alloc::vec::from_elem$|String::with_capacity$|'
                   r'VecDeque::<.*>::with_capacity$|HashMap::<.*>::with_capacity\w*$|IndexMap::<.*>::with_capacity\w*$|::repeat$|'
                   r'io_subsystem::IoSubsystem::resize$|io::IoInterface::resize$')


def tainted_locals(fn, source_call, source_field=None, extra_clean=None):
    fn = F(fn) if isinstance(fn, dict) else fn
    t = set()
    clean = set()
    changed = True

    def op_t(o):
        if o[0] not in ('c', 'm'):
            return False
        if o[1][0] in t:
            return True
        if source_field is not None:
            for p in o[1][1]:
                if isinstance(p, list) and p[0] == 'f' and source_field(p[1]):
                    return True
        return False
    while changed:
        changed = False
        for b in fn.g:
            bb = fn.bbs[b]
            for s in bb['s']:
                if s[0] != 'A':
                    continue
                d = s[1][0]
                if d in t:
                    continue
                rv = s[2]
                k = rv[0]
                src = False
                if k == 'use':
                    src = op_t(rv[1])
                elif k == 'cast':
                    src = op_t(rv[2])
                elif k == 'bin':
                    if rv[1] in ('Eq', 'Ne', 'Lt', 'Le', 'Gt', 'Ge'):
                        src = False
                    elif rv[1] in ('Div', 'Rem', 'Shr', 'BitAnd'):
                        src = op_t(rv[2]) and rv[3][0] != 'k'   # x / const, x & mask are still large; keep only for non-const? conservative: taint
                        src = op_t(rv[2])
                    else:
                        src = op_t(rv[2]) or op_t(rv[3])
                elif k == 'un':
                    src = op_t(rv[2])
                elif k == 'ref':
                    src = rv[2][0] in t
                elif k == 'agg':
                    src = any(op_t(o) for o in rv[2])
                if src:
                    t.add(d)
                    changed = True
            tm = bb['t']
            if tm['k'] == 'call':
                d = tm['d'][0]
                if d in t:
                    continue
                f = tm['f']
                nm = (f.get('inst') or f.get('def') or '')
                dn = f.get('def') or ''
                src = False
                if source_call(nm) or source_call(dn):
                    src = True
                elif SAN.search(nm) or SAN.search(dn) or (extra_clean and extra_clean(nm)):
                    src = False
                elif PASS.search(nm) or PASS.search(dn):
                    src = any(op_t(a) for a in tm['a'])
                if src:
                    t.add(d)
                    changed = True
    return t


def alloc_sinks(fn, sink=ALLOC):
    fn = F(fn) if isinstance(fn, dict) else fn
    return fn.calls(lambda n: sink.search(n) is not None)


def tainted_sinks(fn, source_call, source_field=None, sink=ALLOC):
    """[(bb, sink name, tainted?)]"""
    fn = F(fn) if isinstance(fn, dict) else fn
    sinks = alloc_sinks(fn, sink)
    if not sinks:
        return []
    t = tainted_locals(fn, source_call, source_field)
    out = []
    for b, nm, term in sinks:
        args = term['a']
        # the receiver of reserve/resize is the vector itself: only size arguments matter
        size_args = args[1:] if re.search(r'::(reserve|reserve_exact|resize|resize_with)$', nm) and len(args) > 1 else args
        tainted = False
        for a in size_args:
            if a[0] in ('c', 'm') and a[1][0] in t:
                tainted = True
            if a[0] in ('c', 'm') and source_field is not None:
                for p in a[1][1]:
                    if isinstance(p, list) and p[0] == 'f' and source_field(p[1]):
                        tainted = True
        out.append((b, nm, tainted))
    return out
