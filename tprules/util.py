"""Small shared helpers for rule files."""
import re


def promoted_variant(rec, fn, o, depth=0):
    """operand -> last path segment of the enum variant held by the promoted constant it refers to"""
    if depth > 5:
        return None
    if o[0] == 'k':
        m = re.search(r'promoted\[(\d+)\]', o[2])
        if m:
            pr = rec.get('promoted') or []
            k = int(m.group(1))
            if k < len(pr):
                for rv in pr[k]:
                    if rv[0] == 'agg':
                        return rv[1].split('::')[-1]
        return None
    if o[0] in ('c', 'm'):
        for (b, k, rv) in fn.defs.get(o[1][0], []):
            if k != 'A':
                continue
            if rv[0] == 'use':
                r = promoted_variant(rec, fn, rv[1], depth + 1)
                if r:
                    return r
            if rv[0] == 'ref':
                r = promoted_variant(rec, fn, ['c', [rv[2][0], []]], depth + 1)
                if r:
                    return r
    return None
