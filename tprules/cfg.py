"""Per-function CFG helpers over tpfacts MIR records (primitives P2, P3, P9)."""
import collections

_FN_CACHE = {}


def F(rec):
    """Wrap (and cache) a fn record."""
    w = _FN_CACHE.get(id(rec))
    if w is None or w.r is not rec:
        w = Fn(rec)
        _FN_CACHE[id(rec)] = w
    return w


def op_local(o):
    """local index of a copy/move operand with no projection, else None"""
    if o and o[0] in ('c', 'm') and not o[1][1]:
        return o[1][0]
    return None


def op_base(o):
    """base local of a copy/move operand (any projection), else None"""
    if o and o[0] in ('c', 'm'):
        return o[1][0]
    return None


def op_const(o):
    if o and o[0] == 'k':
        return o[2]
    return None


def place_fields(place):
    return [p[1] for p in place[1] if isinstance(p, list) and p[0] == 'f']


def place_last_field(place):
    fs = place_fields(place)
    return fs[-1] if fs else None


class Fn:
    def __init__(self, rec):
        self.r = rec
        self.id = rec['id']
        self.bbs = rec['bbs']
        self.file = rec['file']
        self.n = len(self.bbs)
        self._g = None
        self._gc = None
        self._preds = None
        self._idom = None
        self._defs = None
        self._names = None

    # ---- basic structure -------------------------------------------------
    def term(self, b):
        return self.bbs[b]['t']

    def is_cleanup(self, b):
        return bool(self.bbs[b]['c'])

    def succs_raw(self, b, cleanup=False):
        t = self.bbs[b]['t']
        k = t['k']
        out = []
        if k == 'goto':
            out = [t['t']]
        elif k == 'switch':
            out = [x for _, x in t['v']] + [t['o']]
        elif k in ('drop', 'assert'):
            out = [t['t']]
        elif k == 'call':
            if t['t'] is not None:
                out = [t['t']]
        if cleanup and t.get('u') is not None:
            out.append(t['u'])
        return out

    @property
    def g(self):
        """successor map over non-cleanup blocks"""
        if self._g is None:
            g = {i: self.succs_raw(i) for i in range(self.n) if not self.bbs[i]['c']}
            self._thread_jumps(g)
            self._g = g
        return self._g

    def _thread_jumps(self, g):
        """P5 (part): thread jumps through statement-free blocks that switch on a boolean
        local which the predecessor has just set to a constant (the shape `matches!` and
        `let x = a && b` lower to). Only removes infeasible paths."""
        self.threaded = {}
        preds = collections.defaultdict(list)
        for n, ss in g.items():
            for x in ss:
                preds[x].append(n)
        for S in list(g):
            bb = self.bbs[S]
            t = bb['t']
            if t['k'] != 'switch' or bb['s']:
                continue
            L = op_local(t['d'])
            if L is None or self.r['locals'][L] != 'bool':
                continue
            explicit = {int(v): tb for v, tb in t['v']}
            for P in preds.get(S, []):
                pt = self.bbs[P]['t']
                if pt['k'] != 'goto':
                    continue
                val = None
                for st in reversed(self.bbs[P]['s']):
                    if st[0] == 'A' and st[1][0] == L and not st[1][1]:
                        rv = st[2]
                        if rv[0] == 'use' and rv[1][0] == 'k':
                            c = rv[1][2].replace('const ', '')
                            if c in ('true', 'false'):
                                val = 1 if c == 'true' else 0
                        break
                if val is None:
                    continue
                tgt = explicit.get(val, t['o'])
                g[P] = [tgt]
                self.threaded[(P, S)] = tgt

    @property
    def preds(self):
        if self._preds is None:
            p = collections.defaultdict(list)
            for n, ss in self.g.items():
                for s in ss:
                    p[s].append(n)
            self._preds = p
        return self._preds

    def line(self, b):
        t = self.bbs[b]['t']
        if 'line' in t:
            return t['line']
        for s in reversed(self.bbs[b]['s']):
            if s[0] == 'A':
                return s[3]
        return self.r['line']

    def loc(self, b):
        return '%s:%d' % (self.file, self.line(b))

    # ---- calls -------------------------------------------------------------
    def call_name(self, b):
        t = self.bbs[b]['t']
        if t['k'] == 'call' and 'def' in t['f']:
            return t['f'].get('inst') or t['f']['def']
        return None

    def call_def(self, b):
        t = self.bbs[b]['t']
        if t['k'] == 'call' and 'def' in t['f']:
            return t['f']['def']
        return None

    def calls(self, pred=None, cleanup=False):
        """[(bb, resolved-name, term)] for direct calls; pred filters by name (either the
        resolved instance or the declared callee matches)."""
        out = []
        for i, bb in enumerate(self.bbs):
            if bb['c'] and not cleanup:
                continue
            t = bb['t']
            if t['k'] != 'call' or 'def' not in t['f']:
                continue
            nm = t['f'].get('inst') or t['f']['def']
            if pred is None or pred(nm) or (nm != t['f']['def'] and pred(t['f']['def'])):
                out.append((i, nm, t))
        return out

    def blocks_calling(self, pred):
        return [b for b, _, _ in self.calls(pred)]

    def returns(self):
        return [i for i in self.g if self.bbs[i]['t']['k'] == 'ret']

    # ---- names ---------------------------------------------------------------
    @property
    def names(self):
        """source variable name -> list of places"""
        if self._names is None:
            d = collections.defaultdict(list)
            for nm, pl in self.r['names']:
                d[nm].append(pl)
            self._names = d
        return self._names

    def local_of(self, name):
        """locals (no projection) carrying a source variable name"""
        return [pl[0] for pl in self.names.get(name, []) if not pl[1]]

    def local_ty(self, l):
        return self.r['locals'][l]

    # ---- defs ------------------------------------------------------------------
    @property
    def defs(self):
        """local -> list of (bb, kind, payload): kind 'A' (assignment rvalue, only when the
        place has no projection), 'P' (assignment through a projection), 'C' (call dest)"""
        if self._defs is None:
            d = collections.defaultdict(list)
            for i, bb in enumerate(self.bbs):
                if bb['c']:
                    continue
                for s in bb['s']:
                    if s[0] == 'A':
                        if not s[1][1]:
                            d[s[1][0]].append((i, 'A', s[2]))
                        else:
                            d[s[1][0]].append((i, 'P', s))
                    elif s[0] == 'D':
                        d[s[1][0]].append((i, 'P', s))
                t = bb['t']
                if t['k'] == 'call':
                    if not t['d'][1]:
                        d[t['d'][0]].append((i, 'C', t))
                    else:
                        d[t['d'][0]].append((i, 'P', t))
            self._defs = d
        return self._defs

    # ---- reachability -----------------------------------------------------------
    def reach(self, starts, removed_edges=(), avoid=()):
        """blocks reachable from `starts` (inclusive) in the non-cleanup CFG, never
        traversing removed_edges {(a,b)} and never entering blocks in `avoid`."""
        g = self.g
        seen = set()
        st = [s for s in starts if s not in avoid]
        rem = removed_edges
        while st:
            n = st.pop()
            if n in seen:
                continue
            seen.add(n)
            for s in g.get(n, ()):
                if s in seen or s in avoid:
                    continue
                if rem and (n, s) in rem:
                    continue
                st.append(s)
        return seen

    def reach_after(self, b, removed_edges=(), avoid=()):
        """blocks reachable strictly after executing block b"""
        starts = [s for s in self.g.get(b, ()) if (b, s) not in removed_edges]
        return self.reach(starts, removed_edges, avoid)

    def reachable(self):
        return self.reach([0])

    def path(self, src, dst_set, removed_edges=(), avoid=()):
        """one shortest path of blocks from src to any block in dst_set, or None"""
        g = self.g
        prev = {src: None}
        q = collections.deque([src])
        while q:
            n = q.popleft()
            if n in dst_set and (n != src or prev[n] is not None or src in dst_set):
                out = []
                while n is not None:
                    out.append(n)
                    n = prev[n]
                return out[::-1]
            for s in g.get(n, ()):
                if s in prev or s in avoid or (n, s) in removed_edges:
                    continue
                prev[s] = n
                q.append(s)
        return None

    def path_lines(self, path):
        out = []
        last = None
        for b in path or []:
            ln = self.line(b)
            if ln != last:
                out.append(ln)
                last = ln
        return out

    # ---- dominators ----------------------------------------------------------------
    @property
    def idom(self):
        if self._idom is None:
            self._idom = _idoms(self.g, 0)
        return self._idom

    def dominates(self, a, b):
        """a dominates b (both reachable)"""
        idom = self.idom
        if b not in idom:
            return False
        while True:
            if a == b:
                return True
            nb = idom.get(b)
            if nb is None or nb == b:
                return False
            b = nb

    def must_pass(self, src_after, targets, stop=None):
        """every path from just after block src to a Return passes a block in targets.
        Returns (ok, witness_path)."""
        targets = set(targets)
        rets = set(self.returns())
        starts = list(self.g.get(src_after, ()))
        seen = set()
        prev = {}
        st = []
        for s in starts:
            if s not in targets:
                st.append(s)
                prev[s] = src_after
        while st:
            n = st.pop()
            if n in seen:
                continue
            seen.add(n)
            if n in rets:
                p = [n]
                while p[-1] != src_after and p[-1] in prev:
                    p.append(prev[p[-1]])
                return False, p[::-1]
            for s in self.g.get(n, ()):
                if s in seen or s in targets or (n, s) in removed_edges:
                    continue
                if s not in prev:
                    prev[s] = n
                st.append(s)
        return True, None

    def must_pass_from(self, starts, targets, removed_edges=()):
        """every path from any block in `starts` (inclusive) to a Return passes a block in
        targets; edges in removed_edges are not followed (e.g. the success edges of a call when
        the question is about its error paths). Returns (ok, witness_path)."""
        targets = set(targets)
        removed_edges = set(removed_edges)
        rets = set(self.returns())
        prev = {}
        st = []
        for s in starts:
            if s not in targets:
                st.append(s)
                prev[s] = None
        seen = set()
        while st:
            n = st.pop()
            if n in seen:
                continue
            seen.add(n)
            if n in rets:
                p = [n]
                while prev.get(p[-1]) is not None:
                    p.append(prev[p[-1]])
                return False, p[::-1]
            for s in self.g.get(n, ()):
                if s in seen or s in targets or (n, s) in removed_edges:
                    continue
                if s not in prev:
                    prev[s] = n
                st.append(s)
        return True, None

    def assigns_field(self, b, field_pred):
        """block b assigns (statement or call destination) a place whose last field satisfies pred"""
        for s in self.bbs[b]['s']:
            if s[0] == 'A':
                fs = place_fields(s[1])
                if fs and field_pred(fs[-1]):
                    return True
        t = self.bbs[b]['t']
        if t['k'] == 'call':
            fs = place_fields(t['d'])
            if fs and field_pred(fs[-1]):
                return True
        return False

    # ---- loops / SCC -----------------------------------------------------------------
    def sccs(self, removed_nodes=()):
        """strongly connected components (with >1 node or a self loop) of the non-cleanup CFG"""
        g = {n: [s for s in ss if s not in removed_nodes] for n, ss in self.g.items() if n not in removed_nodes}
        return _sccs(g)

    def in_cycle(self, b, removed_nodes=()):
        for c in self.sccs(removed_nodes):
            if b in c:
                return True
        return False


def _idoms(g, entry):
    # Cooper-Harvey-Kennedy
    order = []
    seen = set()
    st = [(entry, iter(g.get(entry, ())))]
    seen.add(entry)
    while st:
        n, it = st[-1]
        adv = False
        for s in it:
            if s not in seen and s in g:
                seen.add(s)
                st.append((s, iter(g.get(s, ()))))
                adv = True
                break
        if not adv:
            order.append(n)
            st.pop()
    rpo = order[::-1]
    idx = {n: i for i, n in enumerate(rpo)}
    preds = collections.defaultdict(list)
    for n in rpo:
        for s in g.get(n, ()):
            if s in idx:
                preds[s].append(n)
    idom = {entry: entry}

    def inter(a, b):
        while a != b:
            while idx[a] > idx[b]:
                a = idom[a]
            while idx[b] > idx[a]:
                b = idom[b]
        return a
    changed = True
    while changed:
        changed = False
        for n in rpo[1:]:
            ps = [p for p in preds[n] if p in idom]
            if not ps:
                continue
            new = ps[0]
            for p in ps[1:]:
                new = inter(new, p)
            if idom.get(n) != new:
                idom[n] = new
                changed = True
    return idom


def _sccs(g):
    index = {}
    low = {}
    onst = set()
    stack = []
    out = []
    counter = [0]
    for root in g:
        if root in index:
            continue
        work = [(root, iter(g.get(root, ())))]
        index[root] = low[root] = counter[0]
        counter[0] += 1
        stack.append(root)
        onst.add(root)
        while work:
            n, it = work[-1]
            adv = False
            for s in it:
                if s not in g:
                    continue
                if s not in index:
                    index[s] = low[s] = counter[0]
                    counter[0] += 1
                    stack.append(s)
                    onst.add(s)
                    work.append((s, iter(g.get(s, ()))))
                    adv = True
                    break
                elif s in onst:
                    low[n] = min(low[n], index[s])
            if adv:
                continue
            work.pop()
            if work:
                p = work[-1][0]
                low[p] = min(low[p], low[n])
            if low[n] == index[n]:
                comp = set()
                while True:
                    w = stack.pop()
                    onst.discard(w)
                    comp.add(w)
                    if w == n:
                        break
                if len(comp) > 1 or n in g.get(n, ()):
                    out.append(comp)
    return out
