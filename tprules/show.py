"""python3 -m tprules.show <crate> <fn-substring> [--cleanup] : readable MIR dump for rule writing"""
import sys, os, glob
from . import facts, gen

def P(p):
    s='_%d'%p[0]
    for e in p[1]:
        if e=='*': s='(*%s)'%s
        elif isinstance(e,list) and e[0]=='f': s+='.'+e[1].split('.')[-1]
        elif isinstance(e,list) and e[0]=='d': s+=' as '+e[1]
        elif isinstance(e,list) and e[0]=='i': s+='[_%d]'%e[1]
        else: s+='[%s]'%e
    return s
def O(o):
    if o[0] in ('c','m'): return ('copy ' if o[0]=='c' else 'move ')+P(o[1])
    if o[0]=='k': return 'const %s'%(o[2][:70])
    return '?'
def R(r):
    k=r[0]
    if k=='use': return O(r[1])
    if k=='ref': return '&%s %s'%(r[1],P(r[2]))
    if k=='bin': return '%s(%s, %s)'%(r[1],O(r[2]),O(r[3]))
    if k=='un': return '%s(%s)'%(r[1],O(r[2]))
    if k=='cast': return '%s as %s [%s]'%(O(r[2]),r[3],r[1])
    if k=='agg': return '%s(%s)'%(r[1],', '.join(O(x) for x in r[2]))
    if k=='discr': return 'discr(%s)'%P(r[1])
    return str(r)[:80]
def dump(fn, cleanup=False, out=sys.stdout):
    print('FN',fn['id'],fn['file'],fn['line'],file=out)
    print(' names',[(n,P(p)) for n,p in fn['names']],file=out)
    for i,bb in enumerate(fn['bbs']):
        if bb['c'] and not cleanup: continue
        print(' bb%d%s:'%(i,' (cleanup)' if bb['c'] else ''),file=out)
        for s in bb['s']:
            if s[0]=='A': print('    %s = %s   // L%d'%(P(s[1]),R(s[2]),s[3]),file=out)
            else: print('    discr(%s) = %d'%(P(s[1]),s[2]),file=out)
        t=bb['t']
        if t['k']=='call':
            f=t['f']; nm=f.get('inst') or f.get('def') or ('indirect '+f.get('ty',''))
            print('    %s = %s(%s) -> bb%s  // L%d'%(P(t['d']),nm,', '.join(O(a) for a in t['a']),t['t'],t['line']),file=out)
        elif t['k']=='switch': print('    switch %s %s else bb%d // L%d'%(O(t['d']),t['v'],t['o'],t['line']),file=out)
        elif t['k']=='assert': print('    assert %s == %s [%s] -> bb%d // L%d'%(O(t['c']),t['e'],t['m'],t['t'],t['line']),file=out)
        elif t['k']=='drop': print('    drop %s : %s -> bb%d'%(P(t['p']),t['ty'][:50],t['t']),file=out)
        else: print('    ',t,file=out)
if __name__=='__main__':
    d=sorted(glob.glob(os.path.join(gen.CACHE,'facts','*-default')), key=os.path.getmtime)[-1]
    fx=facts.load(d, crates={sys.argv[1]})
    pat=sys.argv[2]
    for k,fn in fx.fns.items():
        if pat in k: dump(fn, '--cleanup' in sys.argv)
    if '--matches' in sys.argv:
        import json
        for m in fx.matches:
            if pat in m['fn']: print(json.dumps(m)[:3000])
        for m in fx.lets:
            if pat in m['fn']: print(json.dumps(m)[:1000])
