"""Fact generation: run the tpfacts driver over /repo's *current* working tree.

Facts are cached by a content hash of every build-relevant file, so an unchanged tree is
analysed once and every edit forces a fresh driver run.
"""
import fcntl
import hashlib
import os
import shutil
import subprocess
import sys
import time

VERIF = os.path.dirname(os.path.dirname(os.path.abspath(__file__)))
REPO = os.environ.get('TP_REPO', '/repo')
CACHE = os.environ.get('TP_CACHE', os.path.join(VERIF, '.cache'))
DRIVER_DIR = os.path.join(VERIF, 'tpfacts')
DRIVER = os.path.join(DRIVER_DIR, 'target', 'release', 'tpfacts')

EXPECTED = {
    'default': ['trust_syntax', 'trust_hir', 'trust_ide', 'trust_runtime', 'trust_runtime_bin',
                'trust_debug', 'trust_lsp_bin', 'trust_wasm_analysis'],
    'nodefault': ['trust_runtime'],
}
CARGO_ARGS = {
    'default': ['check', '--workspace', '--offline'],
    'nodefault': ['check', '-p', 'trust-runtime', '--lib', '--no-default-features', '--offline'],
}


def tree_hash(repo=None):
    repo = repo or REPO
    h = hashlib.sha256()
    files = []
    for top in ('crates', 'Cargo.toml', 'Cargo.lock', '.cargo', 'rust-toolchain.toml', 'rust-toolchain'):
        p = os.path.join(repo, top)
        if os.path.isfile(p):
            files.append(p)
        elif os.path.isdir(p):
            for dp, dn, fn in os.walk(p):
                dn[:] = [d for d in dn if d not in ('target', '.git', 'node_modules')]
                for f in fn:
                    if f.endswith(('.rs', '.toml', '.lock')):
                        files.append(os.path.join(dp, f))
    files.sort()
    for p in files:
        try:
            with open(p, 'rb') as f:
                d = hashlib.sha256(f.read()).digest()
        except OSError:
            d = b'?'
        h.update(os.path.relpath(p, repo).encode())
        h.update(b'\0')
        h.update(d)
    # the driver itself is part of the function computing the facts
    try:
        with open(os.path.join(DRIVER_DIR, 'src', 'main.rs'), 'rb') as f:
            h.update(hashlib.sha256(f.read()).digest())
    except OSError:
        pass
    return h.hexdigest()[:24], len(files)


def nightly_sysroot():
    return subprocess.check_output(['rustc', '+nightly', '--print', 'sysroot'], text=True).strip()


def ensure_driver(log=sys.stderr):
    src = os.path.join(DRIVER_DIR, 'src', 'main.rs')
    if os.path.exists(DRIVER) and os.path.getmtime(DRIVER) >= os.path.getmtime(src):
        return
    print('tprules: building tpfacts driver', file=log)
    env = dict(os.environ, CARGO_NET_OFFLINE='true')
    env.pop('RUSTC_WORKSPACE_WRAPPER', None)
    env.pop('RUSTFLAGS', None)
    r = subprocess.run(['cargo', '+nightly', 'build', '--release', '--offline'], cwd=DRIVER_DIR, env=env,
                       stdout=subprocess.PIPE, stderr=subprocess.STDOUT, text=True)
    if r.returncode != 0:
        print(r.stdout, file=log)
        raise SystemExit(2)


def facts_dir(config='default', repo=None, log=sys.stderr, target_dir=None):
    """Return (dir, info) with facts for the current tree, generating them if needed."""
    repo = repo or REPO
    os.makedirs(os.path.join(CACHE, 'facts'), exist_ok=True)
    ensure_driver(log)
    t0 = time.time()
    hsh, nfiles = tree_hash(repo)
    d = os.path.join(CACHE, 'facts', '%s-%s' % (hsh, config))
    info = {'tree_hash': hsh, 'files_hashed': nfiles, 'config': config, 'generated': False}
    lock = open(os.path.join(CACHE, 'gen.lock'), 'w')
    fcntl.flock(lock, fcntl.LOCK_EX)
    try:
        if os.path.exists(os.path.join(d, 'COMPLETE')):
            info['gen_s'] = 0.0
            try:
                os.utime(d, None)
            except OSError:
                pass
            return d, info
        if os.path.isdir(d):
            shutil.rmtree(d)
        os.makedirs(d)
        tdir = target_dir or os.path.join(CACHE, 'target-nightly')
        os.makedirs(tdir, exist_ok=True)
        fp = os.path.join(tdir, 'debug', '.fingerprint')
        if os.path.isdir(fp):
            for e in os.listdir(fp):
                if e.startswith('trust-') or e.startswith('trust_'):
                    shutil.rmtree(os.path.join(fp, e), ignore_errors=True)
        env = dict(os.environ)
        env.update({
            'LD_LIBRARY_PATH': nightly_sysroot() + '/lib' + (':' + env['LD_LIBRARY_PATH'] if env.get('LD_LIBRARY_PATH') else ''),
            'RUSTFLAGS': '-Zmir-opt-level=0 -Awarnings',
            'RUSTC_WORKSPACE_WRAPPER': DRIVER,
            'CARGO_TARGET_DIR': tdir,
            'TPFACTS_OUT': d,
            'CARGO_NET_OFFLINE': 'true',
        })
        env.pop('RUSTC_WRAPPER', None)
        print('tprules: generating facts (%s) for tree %s' % (config, hsh), file=log)
        r = subprocess.run(['cargo', '+nightly'] + CARGO_ARGS[config], cwd=repo, env=env,
                           stdout=subprocess.PIPE, stderr=subprocess.STDOUT, text=True)
        if r.returncode != 0:
            tail = '\n'.join(r.stdout.splitlines()[-60:])
            print(tail, file=log)
            print('tprules: the tree does not build under the fact driver (infrastructure failure, exit 2)', file=log)
            shutil.rmtree(d, ignore_errors=True)
            raise SystemExit(2)
        have = {f.rsplit('-', 1)[0] for f in os.listdir(d) if f.endswith('.jsonl')}
        missing = [c for c in EXPECTED[config] if c not in have]
        if missing:
            print('tprules: driver produced no facts for %s' % missing, file=log)
            print('\n'.join(r.stdout.splitlines()[-30:]), file=log)
            shutil.rmtree(d, ignore_errors=True)
            raise SystemExit(2)
        for f in os.listdir(d):
            if f.endswith('.jsonl') and os.path.getsize(os.path.join(d, f)) == 0:
                print('tprules: empty fact file %s' % f, file=log)
                raise SystemExit(2)
        with open(os.path.join(d, 'COMPLETE'), 'w') as f:
            f.write('%s\n' % time.time())
        info['generated'] = True
        info['gen_s'] = round(time.time() - t0, 1)
        _prune(os.path.join(CACHE, 'facts'), keep=8)
        return d, info
    finally:
        fcntl.flock(lock, fcntl.LOCK_UN)
        lock.close()


def _prune(root, keep):
    ents = []
    for e in os.listdir(root):
        p = os.path.join(root, e)
        if os.path.isdir(p):
            ents.append((os.path.getmtime(p), p))
    ents.sort(reverse=True)
    for _, p in ents[keep:]:
        shutil.rmtree(p, ignore_errors=True)
