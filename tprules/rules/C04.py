"""C04 — standard function blocks follow the IEC timing diagrams (thin).

The outputs against the diagrams are value-level and not decided.  Decided statically, each a
necessary condition: (R1) every counter increment/decrement is behind its saturation guard;
(R2) instance locality: every state access of a builtin FB goes through the call's own
instance id, no static or global storage is touched; (R3) single clock: elapsed time derives
only from ctx.now and the instance's own last-call time, no OS clock is reachable;
(R4) premises of the reviewed timer-arithmetic exceptions (C01.R2): the last-call time is
written only from ctx.now, ET only by the timer's own write-back; (R5) edge/state memory read
by an FB is written back on every successful path, from this call's sample; (R6) bistable
dominance: RS tests its dominant reset first, SR its dominant set first.
"""
import re

from ..cfg import F, op_local, place_fields
from ..prov import origins, operand_origins
from .. import arith

CRATES = ['trust_runtime']
NODEFAULT_OK = True
EXPLANATION = __doc__

FB = 'trust_runtime::stdlib::fbs::'
HELPERS = re.compile(r'stdlib::fbs::instance::(read_bool|get_or_init_bool|write_bool|read_value|read_value_or_null|set_instance_value)$|'
                     r'stdlib::fbs::timers::(read_time_input|read_time_value|write_time_value|elapsed_since|get_or_init_duration|set_internal_duration)$|'
                     r'memory::VariableStorage::(get_instance_var|set_instance_var)$')


def _const_str(fn, o):
    if o[0] == 'k':
        return o[2]
    if o[0] in ('c', 'm') and not o[1][1]:
        for (b, k, rv) in fn.defs.get(o[1][0], []):
            if k == 'A' and rv[0] == 'use' and rv[1][0] == 'k':
                return rv[1][2]
            if k == 'A' and rv[0] == 'use' and rv[1][0] in ('c', 'm'):
                return _const_str(fn, rv[1])
            if k == 'A' and rv[0] == 'ref':
                return _const_str(fn, ['c', rv[2]])
    if o[0] in ('c', 'm') and o[1][1] == ['*']:
        return _const_str(fn, ['c', [o[1][0], []]])
    return None


def run(ctx):
    fx, cg = ctx.fx, ctx.cg
    # ------------------------------------------------------------------ R1
    r1 = ctx.rule('C04.R1', 'every counter increment/decrement is behind its saturation guard (no wrap-around)', floor=44, floor_what='counter +/-1 sites')
    for k in sorted(fx.fns):
        if not k.startswith(FB + 'counters::'):
            continue
        fn = F(fx.fns[k])
        for (b, kind, op, ops) in arith.sites(fn):
            if kind != 'Overflow' or op not in ('Add', 'Sub'):
                continue
            r1.saw()
            ty = None
            for o in ops:
                ty = arith.op_type(fn, o) or ty
            if ty is None:
                for o in ops:
                    if o[0] == 'k':
                        ty = o[1]
            key = '%s|%s|%s' % (k[len(FB):], op, ty)
            if arith.guard_discharged(fn, b, op, ops):
                r1.ok(key, loc=fn.loc(b))
            else:
                r1.bad(key, 'counter value is %s without the saturation guard: at the end of the range the counter panics (debug) or wraps (release) instead of holding' % ('incremented' if op == 'Add' else 'decremented'), loc=fn.loc(b))

    # count direction: an increment happens only on the up-count edge, a decrement only on the down-count edge
    # (the edge flags are the booleans computed from the previous-sample memory PREV_CU / PREV_CD)
    from ..dep import deps as _deps
    from ..gates import test_edges as _te, guarded as _guarded
    for k in sorted(fx.fns):
        if not k.startswith(FB + 'counters::'):
            continue
        fn = F(fx.fns[k])
        sites = [(b, op) for (b, kind, op, ops) in arith.sites(fn) if kind == 'Overflow' and op in ('Add', 'Sub') and any(o[0] == 'k' and re.match(r'1(_\w+)?$', o[2].strip()) for o in ops)]
        if not sites:
            continue
        up, down = {}, {}
        for l in list(fn.defs):
            if fn.local_ty(l) != 'bool':
                continue
            d = _deps(fn, ['c', [l, []]])
            txt = ' '.join(sorted(d.fields)) + ' ' + ' '.join(sorted(d.consts))
            # `!prev && input` lowers to a switch on one operand that selects between the other operand and `false`:
            # the dependence on the switched operand is a control dependence of the defining blocks
            for (db, dk, dv) in fn.defs.get(l, []):
                for pb in fn.preds.get(db, []):
                    pt = fn.term(pb)
                    if pt['k'] == 'switch':
                        d2 = _deps(fn, pt['d'])
                        txt += ' ' + ' '.join(sorted(d2.fields)) + ' ' + ' '.join(sorted(d2.consts))
            cu = bool(re.search(r'prev_cu|PREV_CU', txt))
            cd = bool(re.search(r'prev_cd|PREV_CD', txt))
            if cu and not cd:
                up[l] = ('bool', True)
            elif cd and not cu:
                down[l] = ('bool', True)
        upos = _te(fn, up)[0] if up else set()
        dpos = _te(fn, down)[0] if down else set()
        for b, op in sites:
            r1.saw()
            key = 'direction|%s|%s' % (k[len(FB):], op)
            perm = upos if op == 'Add' else dpos
            if not (up or down):
                continue        # helper without edge memory (pure arithmetic)
            if perm and _guarded(fn, b, perm):
                r1.ok(key, loc=fn.loc(b))
            else:
                r1.bad(key, 'the counter is %s on a path that did not establish the rising edge of %s: the count moves in the wrong direction or without an edge' % (
                    'incremented' if op == 'Add' else 'decremented', 'CU' if op == 'Add' else 'CD'), loc=fn.loc(b))

    # ------------------------------------------------------------------ R2
    r2 = ctx.rule('C04.R2', 'instance locality: every state access goes through the call\'s own instance id; no static/global storage', floor=60, floor_what='state access sites')
    for k in sorted(fx.fns):
        if not k.startswith(FB) or '::tests::' in k:
            continue
        fn = F(fx.fns[k])
        ids = set(fn.local_of('instance_id'))
        for b, nm, t in fn.calls(lambda n: HELPERS.search(n) is not None):
            r2.saw()
            # the instance argument: the first InstanceId-typed argument
            arg = None
            for a in t['a']:
                if a[0] in ('c', 'm') and not a[1][1] and fn.local_ty(a[1][0]).endswith('memory::InstanceId'):
                    arg = a
                    break
            key = '%s|%s' % (k[len(FB):], nm.split('::')[-1])
            if arg is None:
                r2.bad(key, 'state access without an instance id argument', loc=fn.loc(b))
                continue
            oo = operand_origins(fn, arg)
            if oo and all(o[0] == 'arg' and o[1] in ids for o in oo):
                r2.ok(key, loc=fn.loc(b))
            else:
                r2.bad(key, 'a builtin FB accesses the state of an instance other than the one it was called on (instance argument origins %s): calling one instance changes another' % sorted(map(str, oo))[:3], loc=fn.loc(b))
        for b, nm, t in fn.calls(lambda n: re.search(r'memory::VariableStorage::(get_global|set_global|get_retain|set_retain)$', n) is not None):
            r2.saw()
            r2.bad('%s|%s' % (k[len(FB):], nm.split('::')[-1]), 'a builtin FB touches global storage', loc=fn.loc(b))
    st = [s for s in fx.statics if s['id'].startswith(FB) and (s.get('mut') or re.search(r'Mutex|RwLock|Cell<|Atomic|OnceLock|Lazy', s.get('ty', '')))]
    if st:
        r2.bad('statics', 'stdlib::fbs defines statics with interior mutability: %s' % [s['id'] for s in st])
    else:
        r2.ok('statics')

    # ------------------------------------------------------------------ R3
    r3 = ctx.rule('C04.R3', 'single clock: no OS clock reachable from the builtin FBs; elapsed time = ctx.now - the instance\'s last-call time', floor=2)
    root = FB + 'execute_builtin'
    if root not in fx.fns:
        r3.bad('anchor-missing|execute_builtin', 'execute_builtin not found')
    else:
        R = cg.reach([root])
        r3.saw(len(R))
        clocks = sorted(n for n in R if re.search(r'^std::time::(Instant|SystemTime)::now$', n))
        if clocks:
            r3.bad('os-clock', 'a builtin FB reaches the OS clock (%s): timers would depend on wall-clock time instead of the runtime clock' % clocks, witness={'call_chain': cg.chain(root, set(clocks))})
        else:
            r3.ok('os-clock', detail='%d bodies reachable from execute_builtin' % len(R))
    es = fx.fns.get(FB + 'timers::elapsed_since')
    if es is None:
        r3.bad('anchor-missing|elapsed_since', 'elapsed_since not found')
    else:
        fn = F(es)
        r3.saw(len(fn.g))
        subs = [(b, rv) for l, dl in fn.defs.items() for (b, k, rv) in dl if k == 'A' and rv[0] == 'bin' and rv[1] in ('Sub', 'SubWithOverflow')]
        okc = False
        for b, rv in subs:
            oa = operand_origins(fn, rv[2], extra_pass=lambda n: n.endswith('Duration::as_nanos'))
            oc = operand_origins(fn, rv[3], extra_pass=lambda n: n.endswith('Duration::as_nanos'))
            if any(o[0] == 'field' and o[1].endswith('EvalContext.now') for o in oa) and any(o[0] == 'call' and o[2].endswith('get_or_init_duration') for o in oc):
                okc = True
        if okc:
            r3.ok('elapsed-shape')
        else:
            r3.bad('elapsed-shape', 'elapsed time is not computed as ctx.now minus the instance\'s stored last-call time', loc=fn.loc(0))
        # R4 premise: last-call time written from ctx.now
        r4 = ctx.rule('C04.R4', 'premises of the reviewed timer exceptions: last-call time written only from ctx.now; ET only by the timer write-back', floor=2)
        r4.saw(len(fn.g))
        sets = fn.calls(lambda n: n.endswith('timers::set_internal_duration'))
        okw = sets and all(any(o[0] == 'field' and o[1].endswith('EvalContext.now') for o in operand_origins(fn, t['a'][-1])) for b, nm, t in sets)
        if okw:
            r4.ok('last-time-from-now', loc=fn.loc(sets[0][0]))
        else:
            r4.bad('last-time-from-now', 'the stored last-call time is not ctx.now: et + delta can then exceed the clock and overflow (the C01.R2 exception no longer holds)', loc=fn.loc(0))
        # who writes the last-time state name
        callers = sorted({a for a, _, _ in cg.callers(FB + 'timers::set_internal_duration')})
        if set(callers) <= {FB + 'timers::elapsed_since', FB + 'timers::get_or_init_duration'}:
            r4.ok('last-time-writers', detail=[c.split('::')[-1] for c in callers])
        else:
            r4.bad('last-time-writers', 'set_internal_duration is called outside elapsed_since/get_or_init_duration: %s' % callers)
        wt = sorted({a for a, _, _ in cg.callers(FB + 'timers::write_time_value')})
        if wt and all(re.search(r'timers::exec_(ton|tof|tp)$', c) for c in wt):
            r4.ok('et-writers', detail=[c.split('::')[-1] for c in wt])
        else:
            r4.bad('et-writers', 'ET is written outside the three timer exec functions: %s' % wt)

    # ------------------------------------------------------------------ R5
    r5 = ctx.rule('C04.R5', 'state memory read by an FB is written back on every successful path', floor=8, floor_what='state variables')
    for k in sorted(fx.fns):
        if not re.search(r'stdlib::fbs::(timers|counters|triggers|bistable)::exec_\w+$', k):
            continue
        fn = F(fx.fns[k])
        r5.saw(len(fn.g))
        reads = {}
        for b, nm, t in fn.calls(lambda n: n.endswith('instance::get_or_init_bool')):
            nme = _const_str(fn, t['a'][2])
            if nme:
                reads[nme] = b
        writes = {}
        for b, nm, t in fn.calls(lambda n: n.endswith('instance::write_bool')):
            nme = _const_str(fn, t['a'][2])
            if nme:
                writes.setdefault(nme, []).append(b)
        oks = [b for b in fn.g for s in fn.bbs[b]['s'] if s[0] == 'A' and s[1][0] == 0 and s[2][0] == 'agg' and s[2][1].endswith('Result::Ok')]
        short = k.split('::')[-1]
        for nme, rb in sorted(reads.items()):
            wbs = writes.get(nme, [])
            key = '%s|%s' % (short, nme.replace('const ', '').strip('"'))
            if wbs and oks and all(any(fn.dominates(w, ob) for w in wbs) for ob in oks) and all(rb != w and w in fn.reach_after(rb) for w in wbs):
                r5.ok(key, loc=fn.loc(wbs[0]))
            else:
                r5.bad(key, '%s reads its state variable %s but a successful call can return without writing it back: the next call sees a stale edge/state (an edge fires twice or never)' % (short, nme), loc=fn.loc(rb))
        # outputs are written on every successful path too
        outs = [n for n in writes if re.search(r'"(Q|Q1|QU|QD|ET|CV)"', n)]
        for nme in outs:
            wbs = writes[nme]
            key = '%s|out|%s' % (short, nme.replace('const ', '').strip('"'))
            if oks and all(any(fn.dominates(w, ob) for w in wbs) for ob in oks):
                r5.ok(key)
            else:
                r5.bad(key, '%s can return Ok without writing its output %s' % (short, nme), loc=fn.loc(wbs[0]))
    # edge detectors: the memory is written from this call's input sample
    for k, inp in ((FB + 'triggers::exec_r_trig', 'CLK'), (FB + 'triggers::exec_f_trig', 'CLK')):
        rec = fx.fns.get(k)
        if rec is None:
            r5.bad('anchor-missing|%s' % k.split('::')[-1], 'edge detector not found')
            continue
        fn = F(rec)
        okv = False
        for b, nm, t in fn.calls(lambda n: n.endswith('instance::write_bool')):
            nme = _const_str(fn, t['a'][2]) or ''
            if 'STATE' in nme or '__' in nme or nme not in ('const "Q"',):
                oo = operand_origins(fn, t['a'][3], through_ops=True)
                for o in oo:
                    if o[0] == 'call' and o[2].endswith('instance::read_bool'):
                        okv = True
        if okv:
            r5.ok('%s|memory-from-sample' % k.split('::')[-1])
        else:
            r5.bad('%s|memory-from-sample' % k.split('::')[-1], 'the edge memory is not written from this call\'s input sample', loc=fn.loc(0))

    # ------------------------------------------------------------------ R6
    r6 = ctx.rule('C04.R6', 'bistable dominance: RS tests its dominant reset (R1) first, SR its dominant set (S1) first', floor=2)
    for k, dom in ((FB + 'bistable::exec_rs', 'R1'), (FB + 'bistable::exec_sr', 'S1')):
        rec = fx.fns.get(k)
        if rec is None:
            r6.bad('anchor-missing|%s' % k.split('::')[-1], 'bistable not found')
            continue
        fn = F(rec)
        r6.saw(len(fn.g))
        # the input locals by name
        name_of = {}
        for b, nm, t in fn.calls(lambda n: n.endswith('instance::read_bool')):
            nme = (_const_str(fn, t['a'][2]) or '').replace('const ', '').strip('"')
            pl = t['d']
            name_of[b] = nme
        # first switch (in dominance order) on a local derived from a read_bool
        first = None
        for b in sorted(fn.g, key=lambda x: len([y for y in fn.g if fn.dominates(y, x)])):
            t = fn.term(b)
            if t['k'] != 'switch':
                continue
            l = op_local(t['d'])
            if l is None:
                continue
            for o in origins(fn, l):
                if o[0] == 'call' and o[2].endswith('instance::read_bool') and name_of.get(o[1]) in ('S', 'S1', 'R', 'R1'):
                    first = name_of[o[1]]
                    break
            if first:
                break
        if first == dom:
            r6.ok('dominance|%s' % k.split('::')[-1], detail='%s tested first' % first)
        else:
            r6.bad('dominance|%s' % k.split('::')[-1], '%s tests %s before its dominant input %s: with both inputs TRUE the output takes the wrong value' % (k.split('::')[-1], first, dom), loc=fn.loc(0))

    # ------------------------------------------------------------------ R7
    r7 = ctx.rule('C04.R7', 'after every advance of ET the timer decides against the preset: a comparison of the new ET with PT follows on every path and its outcome reaches Q or the state Q is taken from', floor=3, floor_what='ET advances in the timer step functions')
    from ..dep import deps
    for T in ('Ton', 'Tof', 'Tp'):
        fid = FB + 'timers::%s::step' % T
        rec = fx.fns.get(fid)
        if rec is None:
            r7.bad('anchor-missing|%s' % T, '%s::step not found' % T)
            continue
        fn = F(rec)
        is_et = lambda f: f.endswith('timers::%s.et' % T)
        # ET advances: writes of `self.et` whose value is not the constant ZERO and not the preset itself
        adv = []
        for b in fn.g:
            for i, st_ in enumerate(fn.bbs[b]['s']):
                if st_[0] == 'A' and place_fields(st_[1]) and is_et(place_fields(st_[1])[-1]) and st_[2][0] == 'use':
                    d = deps(fn, st_[2][1])
                    # the elapsed-time parameter is the last one of step(self, input, pt, delta)
                    if rec['argc'] in d.args:
                        adv.append((b, i))
        # decision comparisons: ET against the preset, with an effect on Q / state
        dcs = set()
        for b in fn.g:
            for i, st_ in enumerate(fn.bbs[b]['s']):
                if st_[0] == 'A' and st_[2][0] == 'bin' and st_[2][1] in ('Ge', 'Gt', 'Le', 'Lt'):
                    da, db_ = deps(fn, st_[2][2]), deps(fn, st_[2][3])
                    et_side = any(is_et(f) for f in da.fields) or any(is_et(f) for f in db_.fields)
                    # the preset is the third parameter of step(self, input, pt, delta), whatever helper normalises it
                    pt_side = (rec['argc'] - 1) in (da.args | db_.args)
                    if not (et_side and pt_side):
                        continue
                    if st_[1][1]:
                        # the comparison is assigned straight into a field: a decision if that is a timer field other than et
                        fs_ = place_fields(st_[1])
                        if fs_ and 'timers::%s.' % T in fs_[-1] and not is_et(fs_[-1]):
                            dcs.add((b, i))
                        continue
                    res = st_[1][0]
                    # (a) data: the result is stored into a timer field other than et
                    data = False
                    for b2 in fn.g:
                        for st2 in fn.bbs[b2]['s']:
                            if st2[0] == 'A' and place_fields(st2[1]) and 'timers::%s.' % T in place_fields(st2[1])[-1] and not is_et(place_fields(st2[1])[-1]) and st2[2][0] == 'use':
                                if res in deps(fn, st2[2][1]).locals:
                                    data = True
                    # (b) control: a switch on the result with a timer-field write (not et) in exactly one branch region
                    ctrl = False
                    for sb in fn.g:
                        t = fn.term(sb)
                        if t['k'] == 'switch' and op_local(t['d']) is not None and (op_local(t['d']) == res or res in _src4(fn, op_local(t['d']))):
                            outs = list(fn.g.get(sb, ()))
                            regs = [fn.reach([x]) for x in outs]
                            for j, x in enumerate(outs):
                                only = regs[j] - set().union(*[regs[m] for m in range(len(outs)) if m != j]) if len(outs) > 1 else set()
                                for ob in only:
                                    for st2 in fn.bbs[ob]['s']:
                                        if st2[0] == 'A' and place_fields(st2[1]) and 'timers::%s.' % T in place_fields(st2[1])[-1] and not is_et(place_fields(st2[1])[-1]):
                                            ctrl = True
                    if data or ctrl:
                        dcs.add((b, i))
        if not adv:
            r7.bad('anchor-missing|%s|advance' % T, '%s::step no longer advances ET from the elapsed time' % T, loc=fn.loc(0))
            continue
        rets = set(fn.returns())
        n = 0
        for (wb, wi) in sorted(set(adv)):
            r7.saw()
            n += 1
            key = 'decides|%s' % T + ('' if n == 1 else '#%d' % n)
            same_block = any(b == wb and i > wi for (b, i) in dcs)
            dc_blocks = {b for (b, i) in dcs if b != wb}
            esc = [] if same_block else [r for r in rets if r in fn.reach(list(fn.g.get(wb, ())), avoid=dc_blocks)]
            if not esc:
                r7.ok(key, loc=fn.loc(wb))
            else:
                r7.bad(key, '%s::step advances ET (line %d) and can return without comparing the new ET with PT in a way that reaches Q: when this call\'s interval already reaches the preset, Q changes one call late' % (T, fn.line(wb)), loc=fn.loc(wb))


def _src4(fn, l, depth=0):
    out = set()
    if l is None or depth > 4:
        return out
    for (b, k, rv) in fn.defs.get(l, []):
        if k == 'A' and rv[0] == 'use' and rv[1][0] in ('c', 'm') and not rv[1][1][1]:
            out.add(rv[1][1][0])
            out |= _src4(fn, rv[1][1][0], depth + 1)
    return out
