"""C17 — debugger is transparent and never wedges the runtime.

Decided statically: (R1) condvar protocol of the debug control: waits in a predicate loop,
every resume (mode := Running) is followed by notify_all before the function returns;
(R2) deferred debugger writes are drained only at cycle boundaries and handlers only
enqueue; (R3) the statement hook dominates statement dispatch, gets the statement's location
and the call depth, the hook object and the call depth are restored on every path;
(R4) step semantics shape (into: always, over/out: depth <= target, out: target = depth-1);
(R5) one stop notification per pause; (R6) a stop filtered by the adapter must not strand the
runtime. Interleavings and side effects of user-chosen watch expressions are not decided.
"""
import re

from ..cfg import F, op_local, place_fields
from ..gates import call_result_edges, guarded, unguarded_path, test_edges, compare_seeds
from ..pairing import explore
from ..prov import origins, operand_origins
from .C01 import rule_debug_take_restore

CRATES = ['trust_runtime', 'trust_debug']
NODEFAULT_OK = False
EXPLANATION = __doc__

DC = 'trust_runtime::debug::control::'
DCC = DC + 'DebugControl::'
RTI = '<impl trust_runtime::runtime::core::Runtime>::'
CY = 'trust_runtime::runtime::cycle::' + RTI
WAIT = re.compile(r'Condvar::wait(_while|_timeout|_timeout_while)?$')
NOTIFY_ALL = re.compile(r'Condvar::notify_all$')


def _assigns_mode(fn, b, variant):
    for s in fn.bbs[b]['s']:
        if s[0] == 'A' and place_fields(s[1]) and place_fields(s[1])[-1].endswith('DebugState.mode'):
            if s[2][0] == 'agg' and s[2][1].endswith('DebugMode::' + variant):
                return True
            if s[2][0] == 'use' and s[2][1][0] == 'k' and variant in s[2][1][2]:
                return True
            if s[2][0] == 'use' and s[2][1][0] in ('c', 'm'):
                for o in operand_origins(fn, s[2][1]):
                    if o[0] == 'agg' and o[1].endswith('DebugMode::' + variant):
                        return True
    return False


def run(ctx):
    _run_main(ctx)
    rules_r8_r9(ctx)


def _run_main(ctx):
    fx, cg = ctx.fx, ctx.cg

    # ------------------------------------------------------------------ R1
    r1 = ctx.rule('C17.R1', 'condvar protocol: waits in a predicate loop; every resume is followed by notify_all before return', floor=3)
    for k in sorted(fx.fns):
        if not (k.startswith(DC) or k.startswith('<trust_runtime::debug::control::')):
            continue
        fn = F(fx.fns[k])
        waits = fn.calls(lambda n: WAIT.search(n) is not None)
        short = k.replace('trust_runtime::debug::control::', '')
        for wb, nm, t in waits:
            r1.saw(len(fn.g))
            comp = [c for c in fn.sccs() if wb in c]
            # the loop re-reads DebugState.mode after waking
            rereads = comp and any(any(s[0] == 'A' and ((s[2][0] == 'discr' and place_fields(s[2][1]) and place_fields(s[2][1])[-1].endswith('DebugState.mode')) or
                                       (s[2][0] == 'use' and s[2][1][0] in ('c', 'm') and place_fields(s[2][1][1]) and place_fields(s[2][1][1])[-1].endswith('DebugState.mode')))
                                       for s in fn.bbs[b]['s']) for b in comp[0])
            if comp and rereads:
                r1.ok('wait-in-loop|%s' % short, loc=fn.loc(wb))
            else:
                r1.bad('wait-in-loop|%s' % short, 'Condvar::wait is not inside a loop that re-reads DebugState.mode (a spurious wake-up resumes the program; a missed one wedges it)', loc=fn.loc(wb))
            # decisions inside the wait loop must use state read inside the loop (after waking), never a value computed from
            # DebugState before the loop: the state changes while the thread is parked
            if comp:
                stale = _stale_state_reads(fn, comp[0])
                if stale:
                    sb, fld, db = stale[0]
                    r1.bad('wait-loop-fresh-state|%s' % short, 'a branch inside the wait loop (line %d) depends on %s read before the loop (line %d): after waking the hook decides on stale state (wrong thread released or parked without a stop)' % (
                        fn.line(sb), fld.split('::')[-1], fn.line(db)), loc=fn.loc(sb))
                else:
                    r1.ok('wait-loop-fresh-state|%s' % short)
            # guard passed to wait comes from the mutex of the same Arc tuple: the wait's guard argument derives from a lock() in this function
            go = operand_origins(fn, t['a'][1]) if len(t['a']) > 1 else set()
            if any(o[0] == 'call' and re.search(r'Mutex::<.*>::lock$|Condvar::wait', o[2]) for o in go):
                r1.ok('wait-guard|%s' % short)
            else:
                r1.bad('wait-guard|%s' % short, 'the guard handed to Condvar::wait does not come from the state mutex locked in this function', loc=fn.loc(wb))
        resumes = [b for b in fn.g if _assigns_mode(fn, b, 'Running')]
        if not resumes:
            continue
        r1.saw(len(fn.g))
        rs = set(resumes)

        def ev(fn_, b):
            nm = fn_.call_name(b) or ''
            if NOTIFY_ALL.search(nm):
                return ('set', 0)
            if b in rs:
                return ('set', 1)
            return 0
        bad, states = explore(fn, ev, cap=1)
        if bad is None:
            r1.bad('resume-notifies|%s' % short, 'exploration exceeded the state limit', loc=fn.loc(0))
        elif bad:
            eb, depth, path = bad[0]
            r1.bad('resume-notifies|%s' % short, 'a path sets DebugMode::Running and returns without notify_all: the cycle thread stays blocked in the statement hook although the client was told it resumed',
                   loc=fn.loc(resumes[0]), witness={'path_lines': fn.path_lines(path)[-14:], 'states': states})
        else:
            r1.ok('resume-notifies|%s' % short, loc=fn.loc(resumes[0]), detail='%d resume sites, %d states' % (len(resumes), states))

    # ------------------------------------------------------------------ R2
    r2 = ctx.rule('C17.R2', 'deferred debugger writes are drained only at cycle boundaries; control handlers only enqueue', floor=5)
    table = {
        DCC + 'drain_var_writes': {CY + 'execute_cycle'},
        DCC + 'drain_lvalue_writes': {CY + 'execute_cycle'},
        DCC + 'drain_io_writes': {CY + 'read_cycle_inputs'},
        CY + 'apply_forced_values': {CY + 'read_cycle_inputs', CY + 'write_cycle_outputs'},
        DCC + 'forced_snapshot': {CY + 'apply_forced_values', 'trust_runtime::control::handle_var_forced'},
    }
    for tgt, allowed in table.items():
        if tgt not in fx.fns:
            r2.bad('anchor-missing|%s' % tgt.split('::')[-1], 'function not found')
            continue
        cs = {a.split('::{closure')[0] for a, _, _ in cg.callers(tgt)}
        r2.saw(len(cs))
        bad = sorted(c for c in cs if c not in allowed)
        if bad:
            r2.bad('who-calls|%s' % tgt.split('::')[-1], '%s is called outside the cycle boundary functions: %s (a write would land in the middle of a scan)' % (tgt.split('::')[-1], bad))
        elif not cs:
            r2.bad('who-calls|%s' % tgt.split('::')[-1], '%s is never called: queued debugger writes are never applied' % tgt.split('::')[-1])
        else:
            r2.ok('who-calls|%s' % tgt.split('::')[-1], detail=sorted(cs))
    # in execute_cycle the drains precede the input latch
    ex = fx.fns.get(CY + 'execute_cycle')
    if ex is not None:
        fn = F(ex)
        dr = fn.blocks_calling(lambda n: n in (DCC + 'drain_var_writes', DCC + 'drain_lvalue_writes'))
        rb = fn.blocks_calling(lambda n: n == CY + 'read_cycle_inputs')
        progs = fn.blocks_calling(lambda n: n in (CY + 'execute_task', CY + 'execute_background_programs'))
        if dr and rb and all(rb[0] in fn.reach_after(d) and d not in fn.reach_after(rb[0]) for d in dr) and not any(d in fn.reach_after(p) for d in dr for p in progs):
            r2.ok('drains-before-latch')
        else:
            r2.bad('drains-before-latch', 'queued variable writes are applied after the cycle started executing program code', loc=fn.loc(dr[0]) if dr else fn.loc(0))
    # nothing reachable from exec_stmt drains or applies
    es = 'trust_runtime::eval::stmt::exec_stmt'
    if es in fx.fns:
        R = cg.reach([es])
        hit = sorted(set(table) & R)
        r2.saw(len(R))
        if hit:
            r2.bad('no-drain-in-statements', 'a drain/apply function is reachable from statement execution: %s' % hit)
        else:
            r2.ok('no-drain-in-statements', detail='%d bodies reachable from exec_stmt' % len(R))

    # ------------------------------------------------------------------ R3
    r3 = ctx.rule('C17.R3', 'statement hook precedes dispatch with the statement location and call depth; hook object and call depth are restored on every path', floor=5)
    rec = fx.fns.get(es)
    if rec is None:
        r3.bad('anchor-missing|exec_stmt', 'exec_stmt not found')
    else:
        fn = F(rec)
        r3.saw(len(fn.g))
        hooks = fn.calls(lambda n: n.endswith('DebugHook::on_statement_with_context') or n.endswith('DebugHook::on_statement'))
        disp = fn.blocks_calling(lambda n: re.search(r'eval::(expr::)?(eval_expr|write_lvalue|read_lvalue)$|eval::stmt::exec_block$|eval::stmt::eval_bool$', n) is not None)
        if len(hooks) != 1:
            r3.bad('hook-site', 'expected one statement-hook call in exec_stmt, found %d' % len(hooks), loc=fn.loc(0))
        else:
            hb, hnm, ht = hooks[0]
            takes = [b for b, nm, t in fn.calls(lambda n: re.search(r'Option::<.*>::take$', n) is not None)
                     if any(o[0] == 'field' and o[1].endswith('EvalContext.debug') for o in operand_origins(fn, t['a'][0]))]
            # every dispatch block is after the hook decision: not reachable from entry without passing the take() test
            if takes:
                pos, neg, _ = call_result_edges(fn, takes[0])
                # dispatch reachable either via None edge (no debugger) or via the hook call
                before = [d for d in disp if d in fn.reach([0], avoid={takes[0]})]
                skip = [d for d in disp if d in fn.reach([b for (_, b) in pos], avoid={hb}) and not guarded(fn, d, neg | {(hb, x) for x in fn.g.get(hb, [])})]
                if before:
                    r3.bad('hook-before-dispatch', 'a statement can start executing before the debug hook decision', loc=fn.loc(before[0]))
                elif _some_path_skips(fn, pos, hb, disp):
                    r3.bad('hook-before-dispatch', 'with a debugger attached a statement can be dispatched without calling the hook', loc=fn.loc(hb))
                else:
                    r3.ok('hook-before-dispatch', loc=fn.loc(hb))
                # restore: every path from the take's Some edge to dispatch passes an assignment to EvalContext.debug
                restore = [b for b in fn.g if fn.assigns_field(b, lambda f: f.endswith('EvalContext.debug'))]
                starts = [b for (_, b) in pos]
                ok, path = _must_pass_before(fn, starts, set(restore), set(disp))
                if restore and ok:
                    r3.ok('hook-restored', loc=fn.loc(restore[0]))
                else:
                    r3.bad('hook-restored', 'ctx.debug is taken for the hook call and not put back before the statement runs (nested statements execute undebugged)', loc=fn.loc(takes[0]))
            else:
                r3.bad('hook-take', 'exec_stmt no longer takes ctx.debug around the hook call (shape not recognised)', loc=fn.loc(hb))
            # arguments
            a_loc = operand_origins(fn, ht['a'][2]) if len(ht['a']) > 2 else set()
            a_dep = operand_origins(fn, ht['a'][3]) if len(ht['a']) > 3 else set()
            if any(o[0] == 'call' and o[2].endswith('Stmt::location') for o in a_loc):
                r3.ok('hook-arg-location')
            else:
                r3.bad('hook-arg-location', 'the hook is not given stmt.location()', loc=fn.loc(hb))
            if any(o[0] == 'field' and o[1].endswith('EvalContext.call_depth') for o in a_dep):
                r3.ok('hook-arg-depth')
            else:
                r3.bad('hook-arg-depth', 'the hook is not given ctx.call_depth', loc=fn.loc(hb))
    # call depth: increment and restore
    for cf in ('trust_runtime::eval::call_function', 'trust_runtime::eval::call_method', 'trust_runtime::eval::call_function_block'):
        rec = fx.fns.get(cf)
        if rec is None:
            r3.bad('anchor-missing|%s' % cf.split('::')[-1], 'function not found')
            continue
        fn = F(rec)
        r3.saw(len(fn.g))
        writes = []
        for b in fn.g:
            if fn.assigns_field(b, lambda f: f.endswith('EvalContext.call_depth')):
                # classify: from saturating_add (increment) or from the saved local (restore)
                inc = False
                t = fn.term(b)
                if t['k'] == 'call' and place_fields(t['d']) and place_fields(t['d'])[-1].endswith('EvalContext.call_depth') and (fn.call_name(b) or '').endswith('saturating_add'):
                    inc = True
                for s in fn.bbs[b]['s']:
                    if s[0] == 'A' and place_fields(s[1]) and place_fields(s[1])[-1].endswith('EvalContext.call_depth'):
                        oo = operand_origins(fn, s[2][1]) if s[2][0] == 'use' else set()
                        if any(o[0] == 'call' and o[2].endswith('saturating_add') for o in oo) or any(o[0] == 'op' and o[1] in ('Add', 'AddWithOverflow') for o in oo):
                            inc = True
                writes.append((b, inc))
        incs = [b for b, i in writes if i]
        rest = [b for b, i in writes if not i]
        if len(incs) != 1 or not rest:
            r3.bad('call-depth|%s' % cf.split('::')[-1], 'expected one call_depth increment and restores (found %d increments, %d restores)' % (len(incs), len(rest)), loc=fn.loc(0))
            continue
        ok, path = fn.must_pass_from(list(fn.g.get(incs[0], [])), set(rest))
        if ok:
            r3.ok('call-depth|%s' % cf.split('::')[-1], loc=fn.loc(incs[0]))
        else:
            r3.bad('call-depth|%s' % cf.split('::')[-1], 'call_depth is incremented and a path returns without restoring it: later step-over/step-out compare against a wrong depth', loc=fn.loc(incs[0]),
                   witness={'path_lines': fn.path_lines(path)[-10:]})

    # ------------------------------------------------------------------ R4
    r4 = ctx.rule('C17.R4', 'step semantics: into pauses at the next statement, over/out pause iff call_depth <= target_depth, out targets depth - 1', floor=3)
    hk = [k for k in fx.fns if k.endswith('::on_statement_inner') and 'debug::control' in k]
    if not hk:
        r4.bad('anchor-missing|on_statement_inner', 'hook implementation not found')
    else:
        fn = F(fx.fns[hk[0]])
        r4.saw(len(fn.g))
        depth_params = set(fn.local_of('call_depth'))
        cmps = []
        for l, dl in fn.defs.items():
            for (b, k, rv) in dl:
                if k == 'A' and rv[0] == 'bin' and rv[1] in ('Le', 'Lt', 'Ge', 'Gt', 'Eq'):
                    oa, oc = operand_origins(fn, rv[2]), operand_origins(fn, rv[3])
                    a_depth = any(o[0] == 'arg' and o[1] in depth_params for o in oa)
                    c_depth = any(o[0] == 'arg' and o[1] in depth_params for o in oc)
                    a_tgt = any(o[0] == 'field' and o[1].endswith('StepState.target_depth') for o in oa)
                    c_tgt = any(o[0] == 'field' and o[1].endswith('StepState.target_depth') for o in oc)
                    if (a_depth and c_tgt) or (c_depth and a_tgt):
                        norm = rv[1] if a_depth else {'Le': 'Ge', 'Lt': 'Gt', 'Ge': 'Le', 'Gt': 'Lt', 'Eq': 'Eq'}[rv[1]]
                        cmps.append((b, norm))
        if len(cmps) >= 2 and all(op == 'Le' for _, op in cmps):
            r4.ok('over-out-compare', detail='%d comparisons call_depth <= target_depth' % len(cmps))
        else:
            r4.bad('over-out-compare', 'step-over/step-out do not pause on `call_depth <= target_depth` (found %s): they can stop inside a deeper call or never stop' % [op for _, op in cmps], loc=fn.loc(cmps[0][0]) if cmps else fn.loc(0))
        # the step-kind table: Into => true
        ok_into = False
        for m in fx.matches_in(hk[0]):
            if m['sty'].endswith('StepKind'):
                for arm in m['arms']:
                    vs = [p.split('::')[-1] for p in arm['pats'] if p.startswith('variant:')]
                    if vs == ['Into'] and 'lit:bool:true' in arm['refs']:
                        ok_into = True
        if ok_into:
            r4.ok('into-always')
        else:
            r4.bad('into-always', 'step-into is not an unconditional pause at the next statement', loc=fn.loc(0))
    aa = fx.fns.get(DCC + 'apply_action')
    if aa is not None:
        fn = F(aa)
        r4.saw(len(fn.g))
        # StepState aggregates: kind Out must take target_depth from saturating_sub
        found = {}
        for b in fn.g:
            for s in fn.bbs[b]['s']:
                if s[0] == 'A' and s[2][0] == 'agg' and s[2][1].endswith('StepState::StepState'):
                    ops = s[2][2]
                    kinds = [o for o in ops if o[0] in ('c', 'm')]
                    kind = None
                    for o in ops:
                        for org in operand_origins(fn, o):
                            if org[0] == 'agg' and 'StepKind::' in org[1]:
                                kind = org[1].split('::')[-1]
                    dep = set()
                    for o in ops:
                        if o[0] in ('c', 'm') and fn.local_ty(o[1][0]) == 'u32':
                            dep |= operand_origins(fn, o)
                    found[kind] = dep
        if 'Out' in found and any(o[0] == 'call' and o[2].endswith('saturating_sub') for o in found['Out']):
            r4.ok('out-target-depth')
        else:
            r4.bad('out-target-depth', 'step-out does not target call depth - 1 (saturating): it stops in the current function instead of the caller', loc=fn.loc(0))
        if all(k in found for k in ('Into', 'Over', 'Out')) and not any(o[0] == 'call' and o[2].endswith('saturating_sub') for o in found.get('Over', set())):
            r4.ok('over-target-depth')
        else:
            r4.bad('over-target-depth', 'step-over target depth shape changed (kinds found: %s)' % sorted(map(str, found)), loc=fn.loc(0))

    # ------------------------------------------------------------------ R5
    r5 = ctx.rule('C17.R5', 'one stop notification per pause: each emit_stop is behind pending_stop.take() == Some or a pending_stop reset on the same path', floor=3, floor_what='emit_stop sites')
    if hk:
        fn = F(fx.fns[hk[0]])
        emits = fn.calls(lambda n: n == DC + 'emit_stop')
        takes = [b for b, nm, t in fn.calls(lambda n: re.search(r'Option::<.*>::take$', n) is not None)
                 if any(o[0] == 'field' and o[1].endswith('DebugState.pending_stop') for o in operand_origins(fn, t['a'][0]))]
        resets = [b for b in fn.g if fn.assigns_field(b, lambda f: f.endswith('DebugState.pending_stop'))]
        tpos = set()
        for tb in takes:
            p, n_, _ = call_result_edges(fn, tb)
            tpos |= p
        for b, nm, t in emits:
            r5.saw()
            if (tpos and guarded(fn, b, tpos)) or any(fn.dominates(rb, b) and rb != b for rb in resets):
                r5.ok('emit-once', loc=fn.loc(b))
            else:
                r5.bad('emit-once', 'an emit_stop site is neither behind pending_stop.take() nor after a pending_stop reset: the same pause can be reported twice', loc=fn.loc(b))
        # entering Paused in the hook is always accompanied by a stop emission or a pending one
    rule_debug_take_restore(ctx, 'C17.R7')

    # ------------------------------------------------------------------ R6
    r6 = ctx.rule('C17.R6', 'a stop filtered by the debug adapter must not strand the runtime: every iteration of the stop loop emits, resumes or re-queues', floor=1)
    sp = [k for k in fx.fns if re.search(r'trust_debug::adapter::stop::StopCoordinator::spawn::\{closure#0\}$', k)]
    if not sp:
        r6.bad('anchor-missing|StopCoordinator::spawn', 'adapter stop loop not found')
    else:
        fn = F(fx.fns[sp[0]])
        r6.saw(len(fn.g))
        recv = fn.blocks_calling(lambda n: n.endswith('Receiver::<T>::recv') or n.endswith('::recv'))
        handled = set(fn.blocks_calling(lambda n: n.endswith('StopCoordinator::emit_stop') or n.endswith('DebugControl::continue_run') or n.endswith('DebugControl::apply_action') or n.endswith('::send')))
        if not recv:
            r6.bad('stop-loop-shape', 'receive loop not recognised', loc=fn.loc(0))
        else:
            rb = recv[0]
            # a cycle through recv that avoids every handling block = a dropped stop
            still = fn.sccs(removed_nodes=handled)
            if any(rb in c for c in still):
                r6.bad('dropped-stop|StopCoordinator::spawn', 'a stop filtered by should_emit_stop is dropped with `continue` while the cycle thread stays blocked in the hook: no stopped event, no resume, and the client cannot send continue for a thread it believes running',
                       loc=fn.loc(rb))
            else:
                r6.ok('dropped-stop|StopCoordinator::spawn', loc=fn.loc(rb))


def _some_path_skips(fn, pos, hb, disp):
    """from the take()==Some edge a dispatch block is reachable avoiding the hook call"""
    starts = [b for (_, b) in pos]
    r = fn.reach(starts, avoid={hb})
    # blocks reachable only through the Some edge
    return any(d in r and not _reach_without(fn, d, pos) for d in disp)


def _reach_without(fn, b, edges):
    return b in fn.reach([0], removed_edges=edges)


def _must_pass_before(fn, starts, targets, stops):
    """every path from starts to a block in stops passes a target"""
    seen = set()
    st = [s for s in starts if s not in targets]
    while st:
        n = st.pop()
        if n in seen:
            continue
        seen.add(n)
        if n in stops:
            return False, [n]
        for s in fn.g.get(n, ()):
            if s not in seen and s not in targets:
                st.append(s)
    return True, None


def _stale_state_reads(fn, comp):
    """[(switch block, field, defining block)] for switches inside the loop whose discriminant derives from a DebugState
    field read performed outside the loop"""
    out = []
    for sb in comp:
        t = fn.term(sb)
        if t['k'] != 'switch':
            continue
        l = op_local(t['d'])
        if l is None:
            continue
        seen = set()
        st = [l]
        while st:
            x = st.pop()
            if x in seen:
                continue
            seen.add(x)
            for (db, dk, pl) in fn.defs.get(x, []):
                ops = []
                if dk == 'A':
                    rv = pl
                    k = rv[0]
                    if k == 'use':
                        ops = [rv[1]]
                    elif k == 'cast':
                        ops = [rv[2]]
                    elif k == 'bin':
                        ops = [rv[2], rv[3]]
                    elif k == 'un':
                        ops = [rv[2]]
                    elif k == 'discr':
                        ops = [['c', rv[1]]]
                    elif k == 'ref':
                        ops = [['c', rv[2]]]
                elif dk == 'C':
                    nm = fn.call_name(db) or ''
                    if re.search(r'::(is_none|is_some|eq|ne|deref|deref_mut|as_ref|clone)$', nm):
                        ops = pl['a']
                for o in ops:
                    if o[0] not in ('c', 'm'):
                        continue
                    fs = place_fields(o[1])
                    flds = [f for f in fs if 'DebugState.' in f]
                    if flds and db not in comp:
                        out.append((sb, flds[-1], db))
                    st.append(o[1][0])
    return out


def rules_r8_r9(ctx):
    fx = ctx.fx
    # ------------------------------------------------------------------ R8 action table
    r8 = ctx.rule('C17.R8', 'control actions: Continue and every Step action cancel all pending steps, set the mode Running and notify, unconditionally', floor=4, floor_what='resuming action arms')
    aid = 'trust_runtime::debug::control::DebugControl::apply_action'
    rec = fx.fns.get(aid)
    adt = fx.adts.get('trust_runtime::debug::control::ControlAction')
    if rec is None or adt is None:
        r8.bad('anchor-missing|apply_action', 'DebugControl::apply_action / ControlAction not found')
    else:
        fn = F(rec)
        names = [v['name'] for v in adt['variants']]
        sw = None
        for b in fn.g:
            t = fn.term(b)
            if t['k'] == 'switch':
                l = op_local(t['d'])
                dd = fn.defs.get(l, []) if l is not None else []
                if len(dd) == 1 and dd[0][1] == 'A' and dd[0][2][0] == 'discr' and dd[0][2][1] == [2, []]:
                    sw = b
                    break
        if sw is None:
            r8.bad('action-table', 'no dispatch on the action found in apply_action', loc=fn.loc(0))
        else:
            targets = {int(v): tb for v, tb in fn.term(sw)['v']}
            all_t = set(targets.values())
            clear = set(fn.blocks_calling(lambda n: re.search(r'(HashMap|BTreeMap|IndexMap|Vec)(::)?<.*>::clear$', n) is not None))
            notif = {b for b in fn.g for s in fn.bbs[b]['s'] if s[0] == 'A' and not s[1][1] and fn.local_ty(s[1][0]) == 'bool' and s[2][0] == 'use' and s[2][1][0] == 'k' and 'true' in s[2][1][2]
                     and any(n == 'notify' for n, pl in fn.r['names'] if pl == [s[1][0], []])}
            if not notif:
                # structurally: the boolean that guards the notify_all call
                na = fn.blocks_calling(lambda n: n.endswith('Condvar::notify_all'))
                flags = set()
                for l, dl in fn.defs.items():
                    if fn.local_ty(l) == 'bool' and na:
                        pos, neg, _ = test_edges(fn, {l: ('bool', True)})
                        if pos and all(guarded(fn, x, pos) for x in na):
                            flags.add(l)
                notif = {b for b in fn.g for s in fn.bbs[b]['s'] if s[0] == 'A' and not s[1][1] and s[1][0] in flags and s[2][0] == 'use' and s[2][1][0] == 'k' and 'true' in s[2][1][2]}
            running = {b for b in fn.g if _assigns_mode(fn, b, 'Running')}
            for vi, tb in sorted(targets.items()):
                if vi >= len(names):
                    continue
                nm = names[vi]
                if nm == 'Pause':
                    continue
                r8.saw()
                region = fn.reach([tb], avoid=all_t - {tb})
                rets = set(fn.returns())
                for what, blocks, why in (('cancels-steps', clear, 'pending steps survive the action: the cycle later parks on a Step stop that nobody asked for'),
                                          ('sets-running', running, 'the mode is not set to Running on every path'),
                                          ('notifies', notif, 'waiters are not notified on every path: the cycle thread stays parked')):
                    inreg = blocks & region
                    ok, path = fn.must_pass_from([tb], inreg) if inreg else (False, None)
                    key = 'action|%s|%s' % (nm, what)
                    if ok:
                        r8.ok(key, loc=fn.loc(tb))
                    else:
                        r8.bad(key, 'ControlAction::%s does not always %s: %s' % (nm, what.replace('-', ' '), why), loc=fn.loc(tb))

    # ------------------------------------------------------------------ R9 hook window
    r9 = ctx.rule('C17.R9', 'the statement hook is only taken out of the context for the duration of the hook call itself: nothing is evaluated while it is missing', floor=1)
    EVAL = re.compile(r'trust_runtime::eval::(stmt::exec_stmt|stmt::exec_block|expr::eval::eval_expr|eval_expr|call_function|call_method|call_function_block)$')
    n = 0
    for k in sorted(fx.fns):
        if not k.startswith('trust_runtime::eval::'):
            continue
        fn = F(fx.fns[k])
        for b, nm, t in fn.calls(lambda x: re.search(r'Option::<T>::take$', x) is not None):
            oo = operand_origins(fn, t['a'][0])
            if not any(o[0] == 'field' and o[1].endswith('EvalContext.debug') for o in oo):
                continue
            n += 1
            r9.saw()
            restores = {x for x in fn.g if fn.assigns_field(x, lambda f: f.endswith('EvalContext.debug'))}
            # the window in which the hook is missing: from the Some edge of take() (a hook was there) to the restore
            pos, neg, _ = call_result_edges(fn, b)
            window = fn.reach([x for (_, x) in pos], avoid=restores) if pos else fn.reach_after(b, avoid=restores)
            inside = [x for x in window if EVAL.search(fn.call_name(x) or '')]
            key = 'hook-window|%s' % k[len('trust_runtime::eval::'):]
            if inside:
                r9.bad(key, 'the debug hook is taken out of the context and %s runs before it is put back: statements executed in that window are invisible to the debugger (no stepping into them, no breakpoints, no pause)' % fn.call_name(inside[0]).split('::')[-1], loc=fn.loc(inside[0]))
            else:
                r9.ok(key, loc=fn.loc(b))
    if n == 0:
        r9.bad('anchor-missing|hook-take', 'no take() of EvalContext.debug found in the evaluator (hook shape changed)')
