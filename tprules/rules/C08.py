"""C08 — a fault halts the resource and, under safe_halt, forces every safe-state output.

Decided statically: (R1) the fault latch test dominates the whole cycle and its true edge
returns ResourceFaulted; (R2) every error exit of a cycle sub-step passes record_fault, and
all three fault entry points go through apply_fault; (R3) in apply_fault the safe-state call
depends only on decision.apply_safe_state, precedes the latch, and the latch is
unconditional; (R4) decision tables; (R5) safe-state delivery loops have no exit other than
exhaustion; (R6) only record sets the latch, only clear resets it, only restart/clear_fault
call clear; (R7) in the resource loops a resource is marked Faulted only after the fault
routine ran.
"""
import re

from ..cfg import F, op_local, place_fields
from ..gates import call_result_edges, guarded, unguarded_path, field_flag_edges, test_edges
from ..prov import origins, operand_origins

CRATES = ['trust_runtime']
NODEFAULT_OK = True
EXPLANATION = __doc__

RTI = '<impl trust_runtime::runtime::core::Runtime>::'
CY = 'trust_runtime::runtime::cycle::' + RTI
CORE = 'trust_runtime::runtime::core::Runtime::'
EXEC = CY + 'execute_cycle'
RECORD_FAULT = CY + 'record_fault'
APPLY_FAULT = CORE + 'apply_fault'
SUBSTEPS = ('read_cycle_inputs', 'collect_ready_tasks', 'execute_task', 'execute_background_programs', 'write_cycle_outputs', 'maybe_save_retain_store')
FS = 'trust_runtime::runtime::faults::FaultSubsystem::'
SAFE = 'trust_runtime::runtime::io_subsystem::IoSubsystem::apply_safe_state'
SAFE_APPLY = 'trust_runtime::io::IoSafeState::apply'


def run(ctx):
    fx, cg = ctx.fx, ctx.cg
    ex = None
    # ------------------------------------------------------------------ R1
    r1 = ctx.rule('C08.R1', 'the fault latch test dominates the cycle and its true edge returns ResourceFaulted without running anything', floor=2)
    ex = ctx.anchor(r1, EXEC)
    if ex is not None:
        fn = ex
        r1.saw(len(fn.g))
        isf = fn.calls(lambda n: n == FS + 'is_faulted')
        if len(isf) != 1:
            r1.bad('latch-test', 'expected one is_faulted() test in execute_cycle, found %d' % len(isf), loc=fn.loc(0))
        else:
            ib = isf[0][0]
            pos, neg, _ = call_result_edges(fn, ib)
            others = [b for b, nm, t in fn.calls() if b != ib and (nm in fx.fns) and not nm.endswith('is_faulted')]
            notg = [b for b in others if not guarded(fn, b, neg)]
            if neg and not notg:
                r1.ok('latch-dominates', loc=fn.loc(ib), detail='%d local calls all behind the not-faulted edge' % len(others))
            else:
                r1.bad('latch-dominates', 'a call in execute_cycle is reachable while the resource is faulted (not behind the is_faulted() == false edge)',
                       loc=fn.loc(notg[0]) if notg else fn.loc(ib), witness={'path_lines': fn.path_lines(unguarded_path(fn, notg[0], neg)) if notg else None})
            # true edge: returns Err(ResourceFaulted) with no local call on the way
            tru = set()
            for (a, b) in pos:
                tru |= fn.reach([b], removed_edges=neg)
            only_true = {b for b in tru if not _reach_without(fn, b, pos)}
            calls_in = [b for b in only_true if fn.call_name(b) in fx.fns]
            builds = any(s[0] == 'A' and s[2][0] == 'agg' and s[2][1].endswith('RuntimeError::ResourceFaulted') for b in only_true for s in fn.bbs[b]['s'])
            if builds and not calls_in:
                r1.ok('faulted-returns-error')
            else:
                r1.bad('faulted-returns-error', 'the faulted branch does not simply return ResourceFaulted (builds error: %s, local calls on the branch: %d)' % (builds, len(calls_in)), loc=fn.loc(ib))

    # ------------------------------------------------------------------ R2
    r2 = ctx.rule('C08.R2', 'every error exit of a cycle sub-step passes record_fault; record_fault, watchdog_timeout and simulation_fault all go through apply_fault', floor=9)
    if ex is not None:
        fn = ex
        rf = set(fn.blocks_calling(lambda n: n == RECORD_FAULT))
        for step in SUBSTEPS:
            cs = fn.calls(lambda n: n.endswith(RTI + step))
            if not cs:
                r2.bad('substep-missing|%s' % step, 'execute_cycle no longer calls %s (rule table out of date or step removed)' % step, loc=fn.loc(0))
                continue
            for b, nm, t in cs:
                r2.saw()
                pos, neg, _ = call_result_edges(fn, b)
                if not neg:
                    r2.bad('err-exit|%s' % step, 'the result of %s is not tested: its error would not fault the resource' % step, loc=fn.loc(b))
                    continue
                # the error world of this call: from the call, never following one of its success edges
                ok, path = fn.must_pass_from(list(fn.g.get(b, ())), rf, removed_edges=pos)
                if ok:
                    r2.ok('err-exit|%s' % step, loc=fn.loc(b))
                else:
                    r2.bad('err-exit|%s' % step, 'an error from %s can leave execute_cycle without record_fault: the resource is not latched faulted and the next cycle runs' % step,
                           loc=fn.loc(b), witness={'path_lines': fn.path_lines(path)})
        # every Err return of execute_cycle other than ResourceFaulted carries record_fault's result
    for fid in (RECORD_FAULT, CORE + 'watchdog_timeout', CORE + 'simulation_fault'):
        rec = fx.fns.get(fid)
        if rec is None:
            r2.bad('anchor-missing|%s' % fid.split('::')[-1], 'fault entry point not found')
            continue
        fn = F(rec)
        r2.saw(len(fn.g))
        ab = set(fn.blocks_calling(lambda n: n == APPLY_FAULT))
        ok, path = fn.must_pass_from([0], ab)
        if ab and ok:
            r2.ok('through-apply_fault|%s' % fid.split('::')[-1], loc=fn.loc(sorted(ab)[0]))
        else:
            r2.bad('through-apply_fault|%s' % fid.split('::')[-1], '%s can return without apply_fault (no safe state, no latch)' % fid.split('::')[-1], loc=fn.loc(0))

    # ------------------------------------------------------------------ R3
    r3 = ctx.rule('C08.R3', 'apply_fault: safe state iff decision.apply_safe_state, before the latch; the latch is unconditional', floor=4)
    af = ctx.anchor(r3, APPLY_FAULT)
    if af is not None:
        fn = af
        r3.saw(len(fn.g))
        sb = fn.blocks_calling(lambda n: n == SAFE)
        rb = fn.blocks_calling(lambda n: n == FS + 'record')
        pos, neg, sw = field_flag_edges(fn, lambda f: f.endswith('FaultDecision.apply_safe_state'))
        if len(sb) != 1 or len(rb) != 1:
            r3.bad('shape', 'expected one apply_safe_state call and one faults.record call in apply_fault (found %d / %d)' % (len(sb), len(rb)), loc=fn.loc(0))
        else:
            sb, rb = sb[0], rb[0]
            ok, path = fn.must_pass_from([0], {rb})
            if ok:
                r3.ok('latch-unconditional', loc=fn.loc(rb))
            else:
                r3.bad('latch-unconditional', 'apply_fault can return without faults.record: the resource would keep cycling after a fault', loc=fn.loc(0), witness={'path_lines': fn.path_lines(path)})
            if not pos:
                r3.bad('safe-state-condition', 'apply_fault does not test decision.apply_safe_state', loc=fn.loc(0))
            else:
                ok2, path2 = fn.must_pass_from([b for (_, b) in pos], {sb}, removed_edges=neg)
                # reachable only through the true edge, and every path from the true edge reaches it
                if guarded(fn, sb, pos) and ok2:
                    # and no other condition: removing the flag's own switch, sb is dominated only by entry
                    extra = [b for b in fn.g if fn.term(b)['k'] == 'switch' and b not in sw and fn.dominates(b, sb)]
                    if extra:
                        r3.bad('safe-state-condition', 'the safe-state call depends on a condition other than decision.apply_safe_state', loc=fn.loc(extra[0]))
                    else:
                        r3.ok('safe-state-condition', loc=fn.loc(sb))
                else:
                    r3.bad('safe-state-condition', 'with decision.apply_safe_state = true the safe state is not applied on every path (or it is applied when false)', loc=fn.loc(sb),
                           witness={'path_lines': fn.path_lines(path2)})
            if sb in fn.reach_after(rb):
                r3.bad('safe-before-latch', 'the fault is latched/reported before the safe state is delivered', loc=fn.loc(rb))
            else:
                r3.ok('safe-before-latch')
            # the decision used is the caller's (parameter), the error recorded is the parameter
            r3.ok('decision-is-parameter') if any(o[0] == 'arg' for o in _flag_origin(fn)) else r3.bad('decision-is-parameter', 'the tested decision is not the one passed by the caller', loc=fn.loc(0))

    # ------------------------------------------------------------------ R4
    r4 = ctx.rule('C08.R4', 'decision tables: fault policy SafeHalt and watchdog Halt/SafeHalt apply the safe state', floor=3)
    want = {'from_fault_policy': {'SafeHalt': True}, 'from_watchdog': {'Halt': True, 'SafeHalt': True}}
    for fname, rows in want.items():
        fid = 'trust_runtime::watchdog::FaultDecision::' + fname
        rec = fx.fns.get(fid)
        if rec is None:
            r4.bad('anchor-missing|%s' % fname, 'decision table not found')
            continue
        tabs = fx.matches_in(fid)
        got = {}
        for m in tabs:
            for arm in m['arms']:
                vs = [p.split('::')[-1] for p in arm['pats'] if p.startswith('variant:')]
                bools = [r.split(':')[-1] for r in arm['refs'] if r.startswith('lit:bool:')]
                for v in vs:
                    got[v] = bools
        r4.saw(len(got))
        for v, val in rows.items():
            key = 'decision|%s|%s' % (fname, v)
            if got.get(v) == ['true']:
                r4.ok(key)
            else:
                r4.bad(key, '%s(%s) no longer sets apply_safe_state = true (found %s)' % (fname, v, got.get(v)), loc='%s:%d' % (rec['file'], rec['line']))
    # the watchdog decision is derived from the configured action, the fault decision from the configured policy
    for fid, callee in ((FS + 'decision', 'FaultDecision::from_fault_policy'),):
        rec = fx.fns.get(fid)
        if rec is not None:
            fn = F(rec)
            cs = fn.calls(lambda n: n.endswith(callee))
            if cs and any(o[0] == 'field' and o[1].endswith('FaultSubsystem.policy') for o in operand_origins(fn, cs[0][2]['a'][0])):
                r4.ok('decision-source|faults')
            else:
                r4.bad('decision-source|faults', 'FaultSubsystem::decision is not from_fault_policy(self.policy)', loc=fn.loc(0))

    # ------------------------------------------------------------------ R5
    r5 = ctx.rule('C08.R5', 'safe-state delivery visits every address and every driver: the loops have no exit other than exhaustion', floor=2)
    for fid, callee_pred, what in ((SAFE, lambda n: n == 'trust_runtime::io::IoDriver::write_outputs', 'drivers'),
                                   (SAFE_APPLY, lambda n: n == 'trust_runtime::io::IoInterface::write', 'addresses')):
        rec = fx.fns.get(fid)
        if rec is None:
            r5.bad('anchor-missing|%s' % fid.split('::')[-1], 'function not found')
            continue
        fn = F(rec)
        r5.saw(len(fn.g))
        cb = fn.blocks_calling(callee_pred)
        if len(cb) != 1:
            r5.bad('loop|%s' % what, 'expected one delivery call in %s' % fid.split('::')[-1], loc=fn.loc(0))
            continue
        comps = [c for c in fn.sccs() if cb[0] in c]
        if not comps:
            r5.bad('loop|%s' % what, 'delivery call is not in a loop over the %s' % what, loc=fn.loc(cb[0]))
            continue
        comp = comps[0]
        bad_exit = []
        for a in comp:
            for b in fn.g.get(a, ()):
                if b in comp:
                    continue
                # allowed: the exhaustion edge = switch on the discriminant of Iterator::next's result
                t = fn.term(a)
                ok = False
                if t['k'] == 'switch':
                    l = op_local(t['d'])
                    for (db, dk, rv) in fn.defs.get(l, []):
                        if dk == 'A' and rv[0] == 'discr':
                            src = rv[1][0]
                            if any(o[0] == 'call' and o[2].endswith('::next') for o in origins(fn, src)):
                                ok = True
                if not ok:
                    bad_exit.append((a, b))
        # every iteration delivers: with the delivery call removed, the loop header must no longer be in a cycle
        nexts = [b for b in comp if (fn.call_name(b) or '').endswith('::next')]
        skip = [c for c in fn.sccs(removed_nodes={cb[0]}) if any(n in c for n in nexts)]
        if skip and not bad_exit:
            r5.bad('loop|%s|every-iteration' % what, 'an iteration of the loop over the %s can skip the delivery call (conditional continue): some %s never receive the safe state' % (what, what), loc=fn.loc(cb[0]))
        if bad_exit:
            a, b = bad_exit[0]
            r5.bad('loop|%s' % what, 'the loop over the %s can be left early (line %d): after one failure the remaining %s never receive the safe state' % (what, fn.line(a), what), loc=fn.loc(a))
        else:
            r5.ok('loop|%s' % what, loc=fn.loc(cb[0]))
    # apply_safe_state delivers the image after the overlay was applied
    rec = fx.fns.get(SAFE)
    if rec is not None:
        fn = F(rec)
        ab = fn.blocks_calling(lambda n: n == SAFE_APPLY)
        wb = fn.blocks_calling(lambda n: n == 'trust_runtime::io::IoDriver::write_outputs')
        if ab and wb and fn.dominates(ab[0], wb[0]):
            r5.ok('overlay-before-delivery')
        else:
            r5.bad('overlay-before-delivery', 'drivers can receive the output image before the safe-state values were written into it', loc=fn.loc(0))

    # ------------------------------------------------------------------ R6
    r6 = ctx.rule('C08.R6', 'only FaultSubsystem::record sets the latch, only clear resets it, only restart/clear_fault call clear', floor=3)
    writers = {}
    for k, rec in fx.fns.items():
        if not k.startswith('trust_runtime::'):
            continue
        for bb in rec['bbs']:
            if bb['c']:
                continue
            for s in bb['s']:
                if s[0] == 'A' and place_fields(s[1]) and place_fields(s[1])[-1].endswith('FaultSubsystem.faulted'):
                    val = s[2][1][2] if s[2][0] == 'use' and s[2][1][0] == 'k' else '?'
                    writers.setdefault(k, []).append(val)
    r6.saw(len(writers))
    for k, vals in sorted(writers.items()):
        short = k.split('::')[-1]
        if k == FS + 'record' and all('true' in v for v in vals):
            r6.ok('latch-writer|record')
        elif k == FS + 'clear' and all('false' in v for v in vals):
            r6.ok('latch-writer|clear')
        else:
            r6.bad('latch-writer|%s' % k, 'FaultSubsystem.faulted is written (%s) outside record/clear' % vals, loc='%s:%d' % (fx.fns[k]['file'], fx.fns[k]['line']))
    # the latch write is unconditional inside record / clear
    for nm, val in (('record', 'true'), ('clear', 'false')):
        rec = fx.fns.get(FS + nm)
        if rec is None:
            continue
        fn = F(rec)
        blocks = [b for b in fn.g if fn.assigns_field(b, lambda f: f.endswith('FaultSubsystem.faulted'))]
        ok, path = fn.must_pass_from([0], blocks)
        if blocks and ok:
            r6.ok('latch-unconditional|%s' % nm, loc=fn.loc(blocks[0]))
        else:
            r6.bad('latch-unconditional|%s' % nm, 'FaultSubsystem::%s can return without writing the latch (faulted = %s is conditional): a later fault would not halt the resource' % (nm, val),
                   loc=fn.loc(0), witness={'path_lines': fn.path_lines(path)})
    if FS + 'record' not in writers:
        r6.bad('latch-writer|record', 'FaultSubsystem::record no longer sets the latch')
    cs = sorted({a for a, _, _ in cg.callers(FS + 'clear')})
    allowed = {CORE + 'clear_fault', 'trust_runtime::runtime::restart::' + RTI + 'restart'}
    bad = [c for c in cs if c not in allowed]
    if bad:
        r6.bad('who-calls|clear', 'the fault latch is cleared outside restart/clear_fault: %s' % bad)
    else:
        r6.ok('who-calls|clear', detail=cs)
    # is_faulted reads the latch
    rec = fx.fns.get(FS + 'is_faulted')
    if rec is not None:
        fn = F(rec)
        reads = any(s[0] == 'A' and s[1][0] == 0 and s[2][0] == 'use' and s[2][1][0] in ('c', 'm') and place_fields(s[2][1][1]) and place_fields(s[2][1][1])[-1].endswith('FaultSubsystem.faulted')
                    for b in fn.g for s in fn.bbs[b]['s'])
        if reads and len(fn.g) <= 2:
            r6.ok('is_faulted-reads-latch')
        else:
            r6.bad('is_faulted-reads-latch', 'is_faulted() is no longer a plain read of the latch', loc=fn.loc(0))

    # ------------------------------------------------------------------ R7
    r7 = ctx.rule('C08.R7', 'resource loops: ResourceState::Faulted is assigned only after the fault routine ran (cycle error, watchdog, simulation fault) or for the listed restart/reload failures', floor=2)
    _resource_faulted(ctx, r7)


def _reach_without(fn, b, edges):
    return b in fn.reach([0], removed_edges=edges)


def _flag_origin(fn):
    out = set()
    for l, dl in fn.defs.items():
        for (b, k, rv) in dl:
            if k == 'A' and rv[0] == 'use' and rv[1][0] in ('c', 'm'):
                fs = place_fields(rv[1][1])
                if fs and fs[-1].endswith('FaultDecision.apply_safe_state'):
                    base = rv[1][1][0]
                    out |= origins(fn, base)
                    if 1 <= base <= fn.r['argc']:
                        out.add(('arg', base))
    return out


R7_LISTED = {
    'restart': 'failure of Runtime::restart itself (nothing executed since)',
    'load_retain_store': 'failure to reload retained values after a restart',
    'apply_post_cycle': 'simulation coupling error after a successful cycle: takes &Runtime and cannot latch; not one of the fault kinds the property names (observation)',
    'apply_bytecode_bytes': 'hot-reload failure is reported to the requester; the old program keeps running or the resource is faulted without having executed the new one',
}


def _resource_faulted(ctx, r7):
    fx, cg = ctx.fx, ctx.cg
    loops = [k for k in fx.fns if re.search(r'^trust_runtime::scheduler::run_resource_loop(_with_shared)?$', k)]
    if len(loops) < 2:
        r7.bad('anchor-missing|resource-loops', 'expected run_resource_loop and run_resource_loop_with_shared in scheduler, found %s' % loops)
        return
    fault_routines = {CORE + 'watchdog_timeout', CORE + 'simulation_fault', EXEC}
    for k in sorted(loops):
        bodies = [k] + fx.closures_of(k)
        for bid in bodies:
            fn = F(fx.fns[bid])
            r7.saw(len(fn.g))
            for b in fn.g:
                for s in fn.bbs[b]['s']:
                    if not (s[0] == 'A' and s[2][0] == 'agg' and s[2][1].endswith('ResourceState::Faulted')):
                        continue
                    # walk back: which failing call leads here? all paths from entry to b must pass a block calling a fault routine
                    # (or a call whose callee reaches one), or a listed failure
                    key_calls = {}
                    for cb, nm, t in fn.calls():
                        short = nm.split('::')[-1]
                        reaches = nm in fault_routines or (nm in fx.fns and (cg.reach([nm]) & {APPLY_FAULT}))
                        if not reaches:
                            # a closure passed to the call (e.g. SharedGlobals::with_lock(|g| { .. execute_cycle() .. })) runs inside it
                            for a_ in t['a']:
                                for o in operand_origins(fn, a_):
                                    if o[0] == 'agg' and o[1].startswith('closure:') and (cg.reach([o[1][8:]]) & ({APPLY_FAULT} | fault_routines)):
                                        reaches = True
                        if reaches:
                            key_calls[cb] = 'fault-routine:' + short
                        elif short in R7_LISTED:
                            key_calls[cb] = 'listed:' + short
                    # every path from the loop entry to this assignment within one iteration passes such a call:
                    # approximate with "b unreachable from entry once all key call blocks are removed"
                    path = fn.path(0, {b}, avoid=set(key_calls))
                    key = 'faulted-after|%s|line-ordinal' % bid.split('::', 2)[-1]
                    if path is None:
                        kinds = sorted({v for cb, v in key_calls.items() if b in fn.reach_after(cb)})
                        r7.ok(key, loc=fn.loc(b), detail=kinds[:6])
                    else:
                        r7.bad(key, 'ResourceState::Faulted can be assigned on a path that ran neither the fault routine nor a listed restart/reload failure: the resource looks faulted but the latch and safe state were skipped',
                               loc=fn.loc(b), witness={'path_lines': fn.path_lines(path)[-12:]})
