"""C12 — parsing is total and lossless for every input text.

Decided statically over `trust_syntax`: (R1) tree-building events are balanced: no Marker can
be dropped uncompleted and every start_node is matched by finish_node on every path of every
grammar function (an unbalanced event stream panics the green-tree builder); (R2) token
accounting is 1:1: a Token event is pushed only by Parser::bump together with exactly one
Source::bump, the sink emits exactly the source slice of the token at its own range and
advances its cursor once per emitted token, trivia is flushed before every token and finish;
(R3) parse is ambient-state free; (R4) every grammar recursion cycle has a depth guard;
(R5) parse errors carry the current token's range. Termination of the recovery loops,
tiling of lexer ranges and trivia-insertion invariance are not decided.
"""
import re

from ..cfg import F, op_local, place_fields
from ..gates import call_result_edges, guarded, compare_seeds, test_edges
from ..pairing import explore, call_event
from ..prov import origins, operand_origins

CRATES = ['trust_syntax']
NODEFAULT_OK = False
EXPLANATION = __doc__

P = 'trust_syntax::parser::'
PARSER = P + 'parser::Parser::'
START_NODE = re.compile(r"parser::parser::Parser::<'t, 'src>::start_node$|parser::parser::Parser<.*>::start_node$|parser::parser::Parser::start_node$")
FINISH_NODE = re.compile(r"parser::parser::Parser::<'t, 'src>::finish_node$|parser::parser::Parser<.*>::finish_node$|parser::parser::Parser::finish_node$")


def _pfn(fx, name):
    for k in fx.fns:
        if re.search(r'parser::parser::Parser(::<[^>]*>)?::%s$' % name, k):
            return k
    return None


def run(ctx):
    fx, cg = ctx.fx, ctx.cg

    # ------------------------------------------------------------------ R1
    r1 = ctx.rule('C12.R1', 'tree-building events are balanced: no uncompleted Marker, every start_node matched by finish_node on every path', floor=40, floor_what='grammar functions opening nodes')
    # (a) marker drops
    n_drop = 0
    for k, rec in sorted(fx.fns.items()):
        if not k.startswith('trust_syntax::'):
            continue
        fn = F(rec)
        for b in fn.g:
            t = fn.term(b)
            if t['k'] == 'drop' and re.search(r'parser::parser::Marker$', t['ty']):
                n_drop += 1
                if re.search(r'Marker::complete$', k):
                    r1.ok('marker-drop|complete', loc=fn.loc(b), detail='the defused marker is dropped inside complete()')
                else:
                    r1.bad('marker-drop|%s' % k.split('::', 2)[-1], 'a Marker can go out of scope uncompleted (its drop bomb panics the parser)', loc=fn.loc(b))
    r1.saw(n_drop)
    if n_drop == 0:
        r1.bad('marker-drop|none-found', 'the rule found no Marker drop at all, not even the one in Marker::complete (rule or facts out of date)')
    # (b) start_node / finish_node pairing
    ev = call_event(lambda n: START_NODE.search(n) is not None, lambda n: FINISH_NODE.search(n) is not None)
    for k, rec in sorted(fx.fns.items()):
        if not k.startswith(P) or '::tests::' in k:
            continue
        fn = F(rec)
        if not fn.calls(lambda n: START_NODE.search(n) is not None or FINISH_NODE.search(n) is not None):
            continue
        r1.saw(len(fn.g))
        short = re.sub(r"::<'t, 'src>", '', k[len(P):])
        bad, states = explore(fn, ev, cap=4)
        if bad is None:
            r1.bad('node-pairing|%s' % short, 'exploration exceeded the state limit', loc=fn.loc(0))
        elif bad:
            eb, depth, path = bad[0]
            r1.bad('node-pairing|%s' % short, 'the function can return with %+d open node(s): the event stream becomes unbalanced and the tree builder panics or mis-nests the rest of the file' % depth,
                   loc=fn.loc(eb), witness={'path_lines': fn.path_lines(path)[-12:]})
        else:
            r1.ok('node-pairing|%s' % short, detail='%d states' % states)

    # ------------------------------------------------------------------ R2
    r2 = ctx.rule('C12.R2', 'token accounting is 1:1 between parser events, source cursor and sink output', floor=7)
    bump = _pfn(fx, 'bump')
    if bump is None:
        r2.bad('anchor-missing|Parser::bump', 'Parser::bump not found')
    else:
        fn = F(fx.fns[bump])
        r2.saw(len(fn.g))
        pushes = fn.calls(lambda n: re.search(r'Vec::<.*>::push$', n) is not None)
        sb = fn.calls(lambda n: re.search(r'parser::source::Source(::<[^>]*>)?::bump$', n) is not None)
        tok = fn.calls(lambda n: n.endswith('parser::event::Event::token'))
        if len(pushes) == 1 and len(sb) == 1 and len(tok) == 1 and not fn.sccs():
            ok1, _ = fn.must_pass_from([0], {pushes[0][0]})
            ok2, _ = fn.must_pass_from([0], {sb[0][0]})
            if ok1 and ok2:
                r2.ok('bump-1:1', loc=fn.loc(pushes[0][0]))
            else:
                r2.bad('bump-1:1', 'Parser::bump does not push one token event and advance the source once on every path', loc=fn.loc(0))
        else:
            r2.bad('bump-1:1', 'Parser::bump shape changed: %d event pushes, %d source bumps, %d Event::token (want 1/1/1, no loop)' % (len(pushes), len(sb), len(tok)), loc=fn.loc(0))
        # the kind pushed is the current token's kind
        if tok:
            oo = operand_origins(fn, tok[0][2]['a'][0])
            if any(o[0] == 'call' and re.search(r'Source(::<[^>]*>)?::current$', o[2]) for o in oo):
                r2.ok('bump-kind-from-current')
            else:
                r2.bad('bump-kind-from-current', 'the token event does not carry the kind of the current source token', loc=fn.loc(tok[0][0]))
    # who constructs Event::Token / who calls Event::token
    ctor_sites = []
    for k, rec in fx.fns.items():
        if not k.startswith('trust_syntax::'):
            continue
        for bb in rec['bbs']:
            for s in bb['s']:
                if s[0] == 'A' and s[2][0] == 'agg' and s[2][1].endswith('parser::event::Event::Token'):
                    ctor_sites.append((k, s))
    r2.saw(len(ctor_sites))
    badc = [k for k, s in ctor_sites if not k.endswith('parser::event::Event::token')]
    if badc:
        r2.bad('token-ctor', 'Event::Token is constructed outside Event::token: %s' % sorted(set(badc)))
    elif ctor_sites:
        s = ctor_sites[0][1]
        nt = s[2][2][1] if len(s[2][2]) > 1 else None
        if nt and nt[0] == 'k' and re.match(r'(const )?1_u', nt[2]):
            r2.ok('token-ctor', detail='n_tokens = 1')
        else:
            r2.bad('token-ctor', 'Event::token does not set n_tokens = 1 (%s)' % (nt,))
    else:
        r2.bad('token-ctor', 'Event::Token constructor not found')
    callers = sorted({a for a, _, _ in cg.callers('trust_syntax::parser::event::Event::token')})
    if callers and all(c == bump for c in callers):
        r2.ok('token-event-only-from-bump')
    else:
        r2.bad('token-event-only-from-bump', 'Event::token is called outside Parser::bump: %s' % [c for c in callers if c != bump])
    # Source::bump advances the cursor over trivia and exactly one significant token
    sbk = [k for k in fx.fns if re.search(r'parser::source::Source(::<[^>]*>)?::bump$', k)]
    if sbk:
        fn = F(fx.fns[sbk[0]])
        r2.saw(len(fn.g))
        incs = [b for b in fn.g if fn.assigns_field(b, lambda f: f.endswith('Source.cursor'))]
        if len(incs) == 2 and len(fn.sccs()) == 1:
            r2.ok('source-bump', detail='trivia loop + one significant token')
        else:
            r2.bad('source-bump', 'Source::bump shape changed (%d cursor writes, %d loops)' % (len(incs), len(fn.sccs())), loc=fn.loc(0))
    # Sink::token: builder.token and cursor advance paired, text is the slice at the token's own range
    sk = [k for k in fx.fns if re.search(r'parser::sink::Sink(::<[^>]*>)?::token$', k)]
    if not sk:
        r2.bad('anchor-missing|Sink::token', 'Sink::token not found')
    else:
        fn = F(fx.fns[sk[0]])
        r2.saw(len(fn.g))
        bt = fn.calls(lambda n: n.endswith('GreenNodeBuilder::<\'_>::token') or re.search(r'GreenNodeBuilder.*::token$', n) is not None)
        adv = [b for b in fn.g if fn.assigns_field(b, lambda f: f.endswith('Sink.cursor'))]
        if len(bt) == 1 and len(adv) == 1:
            tb, ab = bt[0][0], adv[0]
            fwd, _ = fn.must_pass_from(list(fn.g.get(tb, [])), {ab})
            dom = fn.dominates(tb, ab)
            if fwd and dom:
                r2.ok('sink-emit-advance-paired', loc=fn.loc(tb))
            else:
                r2.bad('sink-emit-advance-paired', 'the sink can emit a token text without advancing its cursor, or advance without emitting (text is duplicated or lost)', loc=fn.loc(tb))
            # text slice bounds come from the token's range
            idx = fn.calls(lambda n: re.search(r'Index<.*>::index$', n) is not None)
            src_ok = False
            for b, nm, t in idx:
                comp = set()
                if t['a'][1][0] in ('c', 'm'):
                    for (db, dk, rv) in fn.defs.get(t['a'][1][1][0], []):
                        if dk == 'A' and rv[0] == 'agg':
                            for o in rv[2]:
                                comp |= operand_origins(fn, o)
                calls = {o[2] for o in comp if o[0] == 'call'}
                recv = operand_origins(fn, t['a'][0])
                if any(c.endswith('TextRange::start') for c in calls) and any(c.endswith('TextRange::end') for c in calls) and any(o[0] == 'field' and o[1].endswith('Sink.source') for o in recv):
                    src_ok = True
            if src_ok:
                r2.ok('sink-text-is-source-slice')
            else:
                r2.bad('sink-text-is-source-slice', 'the text given to the tree builder is not source[token.range.start()..token.range.end()]', loc=fn.loc(tb))
        else:
            r2.bad('sink-emit-advance-paired', 'Sink::token shape changed (%d builder.token calls, %d cursor writes)' % (len(bt), len(adv)), loc=fn.loc(0))
    # GreenNodeBuilder::token only from Sink::token
    bcallers = sorted({a for a, _, _ in cg.callers(lambda n: re.search(r'GreenNodeBuilder.*::token$', n) is not None) if a.startswith('trust_syntax::')})
    if bcallers and all(c in sk for c in bcallers):
        r2.ok('builder-token-only-from-sink')
    else:
        r2.bad('builder-token-only-from-sink', 'GreenNodeBuilder::token is called outside Sink::token: %s' % bcallers)
    # finish(): eat_trivia precedes token emission and finish_node
    fk = [k for k in fx.fns if re.search(r'parser::sink::Sink(::<[^>]*>)?::finish$', k)]
    if fk:
        fn = F(fx.fns[fk[0]])
        r2.saw(len(fn.g))
        eat = fn.blocks_calling(lambda n: re.search(r'Sink(::<[^>]*>)?::eat_trivia$', n) is not None)
        toks = fn.blocks_calling(lambda n: re.search(r'Sink(::<[^>]*>)?::token$', n) is not None)
        fins = fn.blocks_calling(lambda n: re.search(r'GreenNodeBuilder.*::finish_node$', n) is not None)
        okt = toks and all(any(fn.dominates(e, tb) for e in eat) for tb in toks)
        okf = fins and all(any(fn.dominates(e, fb) for e in eat) for fb in fins)
        if okt and okf:
            r2.ok('trivia-flushed-first', detail='%d eat_trivia sites' % len(eat))
        else:
            r2.bad('trivia-flushed-first', 'a token or finish_node event is processed without flushing trivia first: whitespace/comments end up in the wrong node or after the root', loc=fn.loc(0))
        # the token loop repeats n_tokens times the single-token emission
        # every event variant is handled (match over Event has no wildcard dropping data)
        for m in fx.matches_in(fk[0]):
            if m['sty'].endswith('parser::event::Event'):
                vs = {p.split('::')[-1].split('{')[0].split('(')[0] for arm in m['arms'] for p in arm['pats'] if p.startswith('variant:')}
                if {'Start', 'Token', 'Finish', 'Placeholder'} <= vs:
                    r2.ok('sink-handles-all-events')
                elif vs:
                    r2.bad('sink-handles-all-events', 'Sink::finish no longer handles every event variant explicitly (%s)' % sorted(vs))

    # ------------------------------------------------------------------ R3
    r3 = ctx.rule('C12.R3', 'parse and lex are ambient-state free (no clock, env, RNG, mutable statics, hash iteration)', floor=1)
    roots = [k for k in fx.fns if k in ('trust_syntax::parser::parser::parse', 'trust_syntax::lexer::lex')]
    if len(roots) < 2:
        r3.bad('anchor-missing|parse/lex', 'parse / lex entry points not found (%s)' % roots)
    else:
        R = cg.reach(roots)
        r3.saw(len(R))
        amb = re.compile(r'^std::time::(Instant|SystemTime)::now$|^std::env::|^rand::|thread::current$|^std::process::id$|^std::fs::|^std::net::|thread_local|LocalKey')
        hits = sorted(n for n in R if amb.search(n))
        mut_statics = {s['id'] for s in fx.statics if s.get('mut') or re.search(r'Mutex|RwLock|Cell|Atomic|OnceLock|Lazy', s.get('ty', ''))}
        if hits:
            r3.bad('ambient', 'parsing reaches ambient state: %s' % hits[:5], witness={'call_chain': cg.chain(roots[0], {hits[0]}) or cg.chain(roots[1], {hits[0]})})
        else:
            r3.ok('ambient', detail='%d bodies reachable from parse/lex' % len(R))
        r3.note('statics with interior mutability in trust_syntax: %s' % sorted(mut_statics))
        if mut_statics:
            # is any of them read in a reachable body?
            used = []
            for n in R:
                rec = fx.fns.get(n)
                if not rec:
                    continue
                txt = repr(rec['bbs'])
                for sid in mut_statics:
                    if sid in txt:
                        used.append((n, sid))
            if used:
                r3.bad('mutable-static', 'parsing reads a static with interior mutability: %s' % used[:3])
            else:
                r3.ok('mutable-static')

    # ------------------------------------------------------------------ R4
    r4 = ctx.rule('C12.R4', 'every grammar recursion cycle passes a function whose re-entry is behind a depth test', floor=2, floor_what='recursion components')
    gram = [k for k in fx.fns if k.startswith(P + 'grammar::') or k.startswith(PARSER) or re.search(r'parser::parser::Parser(::<[^>]*>)?::', k)]
    comps = cg.sccs(gram)
    for comp in sorted(comps, key=lambda c: sorted(c)[0]):
        names = sorted(comp)
        r4.saw(len(comp))
        guards = [f for f in names if _depth_field_guard(fx, f, comp)]
        remaining = set(comp) - set(guards)
        still = cg.sccs(remaining) if remaining else []
        first = re.sub(r"::<'t, 'src>", '', names[0].split('::')[-1])
        rec = fx.fns[names[0]]
        loc = '%s:%d' % (rec['file'], rec['line'])
        if not still:
            r4.ok('cycle|%s' % first, loc=loc, detail='guarded at %s' % [g.split('::')[-1] for g in guards])
        else:
            for sc in sorted(still, key=lambda c: sorted(c)[0]):
                sn = sorted(sc)
                key = 'cycle|%s' % re.sub(r"::<'t, 'src>", '', sn[0].split('::')[-1])
                r4.bad(key, 'grammar recursion %s has no depth guard: deeply nested input overflows the stack' % [re.sub(r"::<'t, 'src>", '', x.split('::')[-1]) for x in sn][:8],
                       loc='%s:%d' % (fx.fns[sn[0]]['file'], fx.fns[sn[0]]['line']))

    # ------------------------------------------------------------------ R8
    # a loop whose iterations each wrap the node built so far (`CompletedMarker::precede`, directly or in a
    # helper that takes and returns the completed node) deepens the tree once per iteration without recursing:
    # it needs the same depth bound as recursion, tested on every iteration and advanced by every wrap.
    r8 = ctx.rule('C12.R8', 'every loop that wraps the node built so far tests the depth bound on each iteration and advances the depth with each wrap', floor=1, floor_what='wrapping loops')
    wrapfn = lambda n: re.search(r'parser::parser::CompletedMarker::precede$', n) is not None
    direct = {k for k in gram if any(True for _ in F(fx.fns[k]).calls(wrapfn))}

    def _wraps(n):
        return wrapfn(n) or (n in direct and any('CompletedMarker' in str(t) for t in fx.fns[n]['locals'][1:1 + fx.fns[n].get('argc', 0)]))
    for k in sorted(gram):
        fn = F(fx.fns[k])
        loops = [set(c) for c in fn.sccs() if len(c) > 1]
        if not loops:
            continue
        wb = [b for b, nm, t in fn.calls(_wraps)]
        for comp in loops:
            inloop = [b for b in wb if b in comp]
            if not inloop:
                continue
            r8.saw()
            short = re.sub(r"::<'t, 'src>", '', k.split('::')[-1])
            key = 'wrap-loop|%s' % short

            def pred(op, a, c, bb, fn=fn):
                if op not in ('Gt', 'Ge', 'Lt', 'Le'):
                    return None
                oa, oc = operand_origins(fn, a), operand_origins(fn, c)
                fa = any(o[0] == 'field' and re.search(r'Parser\.\w*depth', o[1]) for o in oa)
                fc = any(o[0] == 'field' and re.search(r'Parser\.\w*depth', o[1]) for o in oc)
                ka = any(o[0] == 'const' for o in oa)
                kc = any(o[0] == 'const' for o in oc)
                if fa and kc and not fc:
                    return op in ('Lt', 'Le')
                if fc and ka and not fa:
                    return op in ('Gt', 'Ge')
                return None
            seeds = compare_seeds(fn, pred)
            pos, neg, _ = test_edges(fn, seeds) if seeds else (set(), set(), [])
            pos_in = {(a, b) for a, b in pos if a in comp and b in comp}
            incs = {b for b in comp for st in fn.bbs[b]['s'] if st[0] == 'A' and st[2][0] == 'bin' and st[2][1] in ('Add', 'AddWithOverflow')
                    and st[2][2][0] in ('c', 'm') and any(isinstance(pj, list) and pj[0] == 'f' and re.search(r'Parser\.\w*depth', pj[1]) for pj in st[2][2][1][1])}
            bad = None
            for b in inloop:
                # a cycle through the wrap that avoids the within-bound edge of the depth test
                g2 = {x: [y for y in fn.g.get(x, []) if y in comp and (x, y) not in pos_in] for x in comp}
                if _on_cycle(g2, b):
                    bad = (b, 'an iteration can wrap the node without passing the depth test')
                    break
                g3 = {x: [y for y in fn.g.get(x, []) if y in comp and y not in incs] for x in comp if x not in incs}
                if b not in incs and _on_cycle(g3, b):
                    bad = (b, 'an iteration can wrap the node without advancing the depth')
                    break
            if bad:
                r8.bad(key, '%s in %s: a long operator chain builds a tree as deep as the chain and overflows the stack when it is walked or dropped' % (bad[1], short), loc=fn.loc(bad[0]))
            else:
                r8.ok(key, loc=fn.loc(inloop[0]), detail='%d wrap sites; depth test edges %d; depth increments %d' % (len(inloop), len(pos_in), len(incs)))

    # ------------------------------------------------------------------ R5
    r5 = ctx.rule('C12.R5', 'ParseError is built only in Parser::error from the current token range (or the empty range at 0)', floor=1)
    sites = []
    for k, rec in fx.fns.items():
        if not k.startswith('trust_syntax::') or '::tests::' in k:
            continue
        for bb in rec['bbs']:
            if bb['c']:
                continue
            for s in bb['s']:
                if s[0] == 'A' and s[2][0] == 'agg' and re.search(r'parser::(\w+::)*ParseError::ParseError$', s[2][1]):
                    sites.append((k, s))
    r5.saw(len(sites))
    err = _pfn(fx, 'error')
    derived = {m for im in fx.impls if im.get('derived') for _, m in im['methods']}
    bad = sorted({k for k, s in sites if k != err and k not in derived})
    if bad:
        r5.bad('error-ctor', 'ParseError is constructed outside Parser::error: %s' % bad)
    elif sites and err:
        fn = F(fx.fns[err])
        closures = fx.closures_of(err)
        calls = {nm for b, nm, t in fn.calls()}
        for c in closures:
            calls |= {nm for b, nm, t in F(fx.fns[c]).calls()}
        if any(re.search(r'Source(::<[^>]*>)?::current_token$', c) for c in calls) and any(c.endswith('TextRange::empty') for c in calls):
            r5.ok('error-ctor', detail='range = current token range, else empty range')
        else:
            r5.bad('error-ctor', 'Parser::error no longer takes the range from the current token / the empty range', loc=fn.loc(0))
    else:
        r5.bad('error-ctor', 'no ParseError construction found')

    # positions and event distances are never narrowed below 32 bits: the forward-parent distance is the number of events
    # of an operand, which grows with the input (65 536 events are about 40 KB of source)
    n_cast = 0
    narrow = None
    for k in sorted(fx.fns):
        if not k.startswith('trust_syntax::parser::') or '::tests::' in k:
            continue
        f2 = F(fx.fns[k])
        for b in f2.g:
            for st in f2.bbs[b]['s']:
                if st[0] == 'A' and st[2][0] == 'cast' and 'IntToInt' in str(st[2][1]):
                    src = op_local(st[2][2])
                    sty = f2.local_ty(src) if src is not None else ''
                    dty = f2.local_ty(st[1][0]) if not st[1][1] else str(st[2][3])
                    if sty in ('usize', 'u64', 'u32'):
                        n_cast += 1
                        if str(st[2][3]) in ('u8', 'u16', 'i8', 'i16') or dty in ('u8', 'u16', 'i8', 'i16'):
                            narrow = (f2, b, sty, str(st[2][3]))
    r2.saw(max(n_cast, 1))
    if narrow:
        f2, b, sty, dty = narrow
        r2.bad('no-narrow-offsets', 'the parser narrows a %s position / event distance to %s: beyond %d events the value wraps and the tree builder attaches or drops the wrong events (text of the tree differs from the input)' % (sty, dty, 2 ** (16 if '16' in dty else 8)), loc=f2.loc(b))
    else:
        r2.ok('no-narrow-offsets', detail='%d integer casts of positions, none below 32 bits' % n_cast)

    # ------------------------------------------------------------------ R6
    r6 = ctx.rule('C12.R6', 'lexer tiling: on every path of Lexer::next the emitted token ranges chain from the start of the first consumed logos span to the end of the last one', floor=4, floor_what='paths through Lexer::next')
    ln = [k for k in fx.fns if re.search(r'trust_syntax::lexer::Lexer<.*> as core::iter::traits::iterator::Iterator>::next$', k)]
    if not ln:
        r6.bad('anchor-missing|Lexer::next', 'Lexer::next not found')
    else:
        _lexer_tiling(fx, ln[0], r6)

    # ------------------------------------------------------------------ R7
    r7 = ctx.rule('C12.R7', 'trivia transparency: the token-stream look-ahead skips a trivia token unconditionally (no exit, no call, no state other than the cursor depends on it)', floor=3, floor_what='trivia tests in parser::source')
    for k in sorted(fx.fns):
        if not re.search(r'trust_syntax::parser::source::Source::<.*>::\w+$', k):
            continue
        fn = F(fx.fns[k])
        short = k.split('::')[-1]
        named = {}
        for nm, pl in fn.r['names']:
            if not pl[1]:
                named[pl[0]] = nm
        sccs = [set(c) for c in fn.sccs() if len(c) > 1]
        for b, nm, t in fn.calls(lambda n: n.endswith('lexer::tokens::TokenKind::is_trivia')):
            r7.saw()
            key = 'skip|%s' % short
            comp = next((c for c in sccs if b in c), None)
            pos, neg, _ = test_edges(fn, {t['d'][0]: ('bool', True)}) if not t['d'][1] else (set(), set(), [])
            if comp is None or not pos:
                r7.bad(key, '%s tests is_trivia outside a skipping loop: shape not recognised' % short, loc=fn.loc(b))
                continue
            heads = {x for x in comp if any(p not in comp for p in fn.preds.get(x, []))}
            region = fn.reach([x for (_, x) in pos], avoid=heads) - heads
            probs = []
            for rb in sorted(region):
                tt = fn.term(rb)
                if tt['k'] == 'ret' or rb not in comp:
                    probs.append('leaves the loop (line %d)' % fn.line(rb))
                    break
                if tt['k'] == 'call':
                    probs.append('calls %s' % (fn.call_name(rb) or '?').split('::')[-1])
                for st in fn.bbs[rb]['s']:
                    if st[0] != 'A':
                        continue
                    base, proj = st[1][0], st[1][1]
                    if proj:
                        fs = place_fields(st[1])
                        if fs and not fs[-1].endswith('Source.cursor'):
                            probs.append('writes %s' % fs[-1])
                    elif base in named and named[base] != 'cursor':
                        probs.append('assigns `%s`' % named[base])
            if probs:
                r7.bad(key, 'in %s the branch taken for a trivia token %s: the look-ahead result then depends on the whitespace/comments between tokens, so inserting trivia between two tokens changes the parse' % (short, '; '.join(sorted(set(probs))[:3])), loc=fn.loc(b))
            else:
                r7.ok(key, loc=fn.loc(b))


def _lexer_tiling(fx, fid, r6):
    rec = fx.fns[fid]
    fn = F(rec)
    if any(len(c) > 1 for c in fn.sccs()):
        r6.bad('shape', 'Lexer::next contains a loop: the path enumeration of the tiling rule does not apply (rule needs review)', loc=fn.loc(0))
        return

    def single(l):
        dl = fn.defs.get(l, [])
        return dl[0] if len(dl) == 1 else None

    def sym(o, depth=0):
        """symbolic value of a position operand"""
        if depth > 12 or o[0] not in ('c', 'm'):
            return ('?',)
        base, proj = o[1][0], o[1][1]
        fs = place_fields(o[1])
        d = single(base)
        if d is None:
            return ('?',)
        b, k, pl = d
        if fs and fs[-1].rsplit('.', 1)[-1] in ('start', 'end') and k == 'C' and (fn.call_name(b) or '').endswith('::span'):
            return ('span', b, fs[-1].rsplit('.', 1)[-1])
        if proj and proj[-1] in ([['f', '0']],) :
            pass
        if k == 'A':
            rv = pl
            if rv[0] == 'use':
                inner = rv[1]
                if inner[0] in ('c', 'm') and proj and not inner[1][1]:
                    # `move _51.0`: field 0 of an overflow pair
                    return sym(['c', [inner[1][0], proj]], depth + 1)
                return sym(inner, depth + 1) if not proj else sym(['c', [inner[1][0], inner[1][1] + proj]], depth + 1) if inner[0] in ('c', 'm') else ('?',)
            if rv[0] == 'cast':
                return sym(rv[2], depth + 1)
            if rv[0] == 'bin' and rv[1] in ('Sub', 'SubWithOverflow') and rv[3][0] == 'k' and re.match(r'1(_usize)?$', rv[3][2].strip()):
                return ('sub1', sym(rv[2], depth + 1))
            return ('?',)
        if k == 'C':
            nm = fn.call_name(b) or ''
            if re.search(r'TextSize as core::convert::From<u32>>::from$|::into$', nm):
                return sym(pl['a'][0], depth + 1)
        return ('?',)

    def token_range(t):
        """(start_sym, end_sym) of a Token::new call"""
        ro = t['a'][1]
        if ro[0] not in ('c', 'm'):
            return None
        l = ro[1][0]
        for _ in range(6):
            d = single(l)
            if d is None:
                return None
            b, k, pl = d
            if k == 'C' and (fn.call_name(b) or '').endswith('text_size::range::TextRange::new'):
                return sym(pl['a'][0]), sym(pl['a'][1])
            if k == 'A' and pl[0] == 'use' and pl[1][0] in ('c', 'm'):
                l = pl[1][1][0]
                continue
            return None
        return None

    is_next = lambda n: re.search(r'logos::lexer::Lexer<.*> as core::iter::traits::iterator::Iterator>::next$', n) is not None
    paths = []
    stack = [(0, [])]
    limit = 20000
    while stack and limit > 0:
        limit -= 1
        b, ev = stack.pop()
        t = fn.term(b)
        ev2 = ev
        if t['k'] == 'call':
            nm = fn.call_name(b) or ''
            if is_next(nm):
                ev2 = ev + [('next', b)]
            elif nm.endswith('logos::lexer::Lexer::<\'source, Token>::span') or nm.endswith('::span'):
                ev2 = ev + [('span', b)]
            elif nm.endswith('trust_syntax::lexer::Token::new'):
                ev2 = ev + [('emit', b, token_range(t))]
        succ = list(fn.g.get(b, ()))
        if t['k'] == 'ret' or not succ:
            if t['k'] == 'ret':
                paths.append(ev2)
            continue
        for x in succ:
            stack.append((x, ev2))
    if limit <= 0:
        r6.bad('shape', 'too many paths through Lexer::next for the tiling rule', loc=fn.loc(0))
        return
    seen = set()
    for ev in paths:
        spans = [e[1] for e in ev if e[0] == 'span']
        emits = [e for e in ev if e[0] == 'emit']
        sig = (tuple(spans), tuple(e[1] for e in emits))
        if sig in seen:
            continue
        seen.add(sig)
        if not spans and not emits:
            continue
        r6.saw()
        key = 'path|%s' % '-'.join(_emit_kind(fn, e[1]) for e in emits) if emits else 'path|no-token'
        if not spans:
            r6.bad(key, 'a token is emitted although no input was consumed', loc=fn.loc(emits[0][1]))
            continue
        if not emits:
            r6.bad(key, 'a logos token was consumed (line %d) and no token is emitted on this path: its bytes belong to no token' % fn.line(spans[0]), loc=fn.loc(spans[0]))
            continue
        if any(e[2] is None or ('?',) in e[2] or (e[2][0][0] == 'sub1' and ('?',) in e[2][0]) for e in emits):
            r6.bad(key, 'a token range on this path is not built from the consumed spans (rule cannot follow it)', loc=fn.loc(emits[0][1]))
            continue
        want_start = ('span', spans[0], 'start')
        want_end = ('span', spans[-1], 'end')
        okp = emits[0][2][0] == want_start and emits[-1][2][1] == want_end
        gap = None
        if emits[0][2][0] != want_start:
            gap = 'the first token does not start at the start of the consumed span'
        elif emits[-1][2][1] != want_end:
            gap = 'the last token ends at %s, before the end of the consumed input (line %d): the remaining bytes belong to no token' % (_symtxt(fn, emits[-1][2][1]), fn.line(spans[-1]))
        for a, bq in zip(emits, emits[1:]):
            e_end, n_start = a[2][1], bq[2][0]
            if e_end == n_start:
                continue
            # logos spans are contiguous: end of span j == start of span j+1
            if e_end[0] == 'span' and n_start[0] == 'span' and e_end[2] == 'end' and n_start[2] == 'start' and e_end[1] in spans and n_start[1] in spans and spans.index(n_start[1]) == spans.index(e_end[1]) + 1:
                continue
            okp = False
            gap = 'consecutive tokens do not meet: one ends at %s, the next starts at %s' % (_symtxt(fn, e_end), _symtxt(fn, n_start))
        if okp and gap is None:
            r6.ok(key, loc=fn.loc(emits[0][1]))
        else:
            r6.bad(key, 'token ranges do not tile the consumed input on a path of Lexer::next: %s (token texts would no longer concatenate to the input)' % gap, loc=fn.loc(emits[-1][1]))


def _emit_kind(fn, b):
    o = fn.term(b)['a'][0]
    for x in operand_origins(fn, o):
        if x[0] == 'agg' and 'TokenKind::' in x[1]:
            return x[1].split('::')[-1]
    return 'tok'


def _symtxt(fn, s):
    if s[0] == 'span':
        return 'span(line %d).%s' % (fn.line(s[1]), s[2])
    if s[0] == 'sub1':
        return '%s - 1' % _symtxt(fn, s[1])
    return '?'


def _depth_field_guard(fx, fid, cycle):
    """fid compares Parser.expr_depth (or another Parser depth field) with a bound and every call back into the cycle is behind the within-bound edge"""
    rec = fx.fns.get(fid)
    if rec is None:
        return False
    fn = F(rec)
    rec_calls = [b for b, nm, t in fn.calls(lambda n: n in cycle)]
    if not rec_calls:
        return False

    def pred(op, a, c, bb):
        if op not in ('Gt', 'Ge', 'Lt', 'Le'):
            return None
        oa, oc = operand_origins(fn, a), operand_origins(fn, c)
        fa = any(o[0] == 'field' and re.search(r'Parser\.\w*depth', o[1]) for o in oa)
        fc = any(o[0] == 'field' and re.search(r'Parser\.\w*depth', o[1]) for o in oc)
        ka = any(o[0] == 'const' for o in oa)
        kc = any(o[0] == 'const' for o in oc)
        if fa and kc and not fc:
            return op in ('Lt', 'Le')
        if fc and ka and not fa:
            return op in ('Gt', 'Ge')
        return None
    seeds = compare_seeds(fn, pred)
    if not seeds:
        # the test may live in a gate helper: `if !self.enter_nested() { return; } ... self.leave_nested();`
        gate_pos = set()
        gates = []
        for b, nm, t in fn.calls(lambda n: n in fx.fns and fx.fns[n]['locals'][0] == 'bool'):
            if _is_depth_gate(fx, nm):
                p_, n_, _ = call_result_edges(fn, b)
                gate_pos |= p_
                gates.append(nm)
        if not gate_pos or not all(guarded(fn, b, gate_pos) for b in rec_calls):
            return False
        # the depth is given back after the nested construct: every path after a re-entering call passes a decrementing helper
        leaves = set(fn.blocks_calling(lambda n: n in fx.fns and _decrements_depth(fx, n)))
        for b in rec_calls:
            ok, path = fn.must_pass_from(list(fn.g.get(b, [])), leaves)
            if not ok:
                return False
        return bool(leaves)
    pos, neg, _ = test_edges(fn, seeds)
    if not pos:
        return False
    # the depth is incremented before re-entry and restored after
    incs = [b for b in fn.g if fn.assigns_field(b, lambda f: re.search(r'Parser\.\w*depth', f) is not None)]
    return all(guarded(fn, b, pos) for b in rec_calls) and len(incs) >= 2


def _is_depth_gate(fx, gid):
    """bool helper: compares a Parser depth field with a bound; `true` is returned only on the within-bound side, after incrementing"""
    fn = F(fx.fns[gid])

    def pred(op, a, c, bb):
        if op not in ('Gt', 'Ge', 'Lt', 'Le'):
            return None
        oa, oc = operand_origins(fn, a), operand_origins(fn, c)
        fa = any(o[0] == 'field' and re.search(r'Parser\.\w*depth', o[1]) for o in oa)
        kc = any(o[0] == 'const' for o in oc)
        if fa and kc:
            return op in ('Lt', 'Le')
        return None
    seeds = compare_seeds(fn, pred)
    if not seeds:
        return False
    pos, neg, _ = test_edges(fn, seeds)
    trues = [b for b in fn.g for s in fn.bbs[b]['s'] if s[0] == 'A' and s[1][0] == 0 and s[2][0] == 'use' and s[2][1][0] == 'k' and 'true' in s[2][1][2]]
    incs = [b for b in fn.g if fn.assigns_field(b, lambda f: re.search(r'Parser\.\w*depth', f) is not None)]
    return bool(pos) and bool(trues) and all(guarded(fn, b, pos) for b in trues) and bool(incs) and all(guarded(fn, b, pos) for b in incs)


def _decrements_depth(fx, gid):
    fn = F(fx.fns[gid])
    if len(fn.g) > 6:
        return False
    for b in fn.g:
        for s in fn.bbs[b]['s']:
            if s[0] == 'A' and s[2][0] == 'bin' and s[2][1] in ('Sub', 'SubWithOverflow'):
                for o in (s[2][2],):
                    if o[0] in ('c', 'm') and any(isinstance(p, list) and p[0] == 'f' and re.search(r'Parser\.\w*depth', p[1]) for p in o[1][1]):
                        return True
    return False


def _on_cycle(g, b):
    """b lies on a cycle of graph g (adjacency dict)"""
    seen = set()
    stack = list(g.get(b, []))
    while stack:
        x = stack.pop()
        if x == b:
            return True
        if x in seen:
            continue
        seen.add(x)
        stack.extend(g.get(x, []))
    return False
