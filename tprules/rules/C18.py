"""C18 — control endpoint executes a request only with a sufficient role.

Decided statically: (R1) every request type the dispatchers know has an explicit row in the
required-role table and vice versa; (R2) every request type whose required role is Viewer
has an empty effect set (effect analysis over the call graph); (R3) every type dispatched
by the debug/variables dispatchers is in the debug-class set; (R4) in the gate function the
dispatcher is reachable only through resolve-role Ok, allows() true and the debug gate, in
that order, with the right arguments, and nothing else calls the dispatcher or a handler;
(R5) role order; (R6) authentication shape; (R7) no explicit panic before dispatch;
(R8) pairing-token validity shape.
"""
import re
import collections

from ..cfg import F, op_local, op_base
from ..gates import call_result_edges, guarded, unguarded_path, test_edges, derive, compare_seeds
from ..cg import field_writes
from ..prov import origins, operand_origins

CRATES = ['trust_runtime', 'trust_runtime_bin']
NODEFAULT_OK = True
EXPLANATION = __doc__

ROLE_ADT = 'trust_runtime::security::AccessRole'
ROLE_ORDER = ['Viewer', 'Operator', 'Engineer', 'Admin']
H = 'trust_runtime::control::handlers::'
GATE = 'trust_runtime::control::handle_request_value'
ROLE_TABLE = 'trust_runtime::control::required_role_for_control_request'
DEBUG_SET = 'trust_runtime::control::is_debug_request'
RESOLVE = 'trust_runtime::control::resolve_request_role'
DISPATCH = H + 'dispatch'

# ---- reviewed effect vocabulary (frozen; one reason per allowance) ---------------------
VIEWER_OK_CMDS = {
    'MeshSnapshot': 'read-only: the resource thread answers with a copy of the named globals',
    'Snapshot': 'read-only: the resource thread answers with a debug snapshot',
}
VIEWER_OK_DEBUGSTATE = {
    'stops': 'debug.stops drains the queue of stop notifications (observational; no program-visible state)',
}
VIEWER_OK_GUARDS = {
    'trust_runtime::debug::dap::DebugVariableHandles': 'allocates variable-reference handles for the reply (observational cache)',
    'trust_runtime::hmi::HmiLiveState': 'HMI getters refresh trend/alarm caches derived from the values just read; acknowledgement is a separate effect (E6)',
}
FS_MUT = re.compile(r'^std::fs::(write|create_dir|create_dir_all|remove_file|remove_dir|remove_dir_all|rename|copy|'
                    r'set_permissions|hard_link|soft_link)$|^std::fs::File::(create|create_new|set_len|set_permissions)$|'
                    r'^std::fs::OpenOptions::open$|^std::os::unix::fs::symlink$')
ATOMIC_MUT = re.compile(r'atomic::Atomic\w*(::<[^>]*>)?::(store|swap|fetch_\w+|compare_exchange\w*|compare_and_swap)$')
GUARD_MUT = re.compile(r'(MutexGuard|RwLockWriteGuard)<')


def _str_tables(fx, pred):
    """{literal: (fn id, arm refs, arm line)} from every match on string literals in fns satisfying pred"""
    out = {}
    fns = collections.defaultdict(int)
    for m in fx.matches:
        if not pred(m['fn']):
            continue
        for arm in m['arms']:
            for p in arm['pats']:
                if p.startswith('lit:str:'):
                    out.setdefault(p[8:], []).append((m['fn'], arm['refs'], arm['line'], arm))
                    fns[m['fn']] += 1
    return out, fns


def _role_of_arm(fx, refs, depth=0):
    """minimum AccessRole an arm body can evaluate to (conservative: unknown -> Viewer)"""
    roles = [r.split('::')[-1] for r in refs if r.startswith(ROLE_ADT + '::') and r.split('::')[-1] in ROLE_ORDER]
    called = [r for r in refs if r in fx.fns and fx.fns[r]['locals'][0] == ROLE_ADT]
    for c in called:
        roles.append(_min_role_of_fn(fx, c, depth + 1))
    if not roles:
        return 'Viewer'
    return min(roles, key=ROLE_ORDER.index)


def _min_role_of_fn(fx, fid, depth=0):
    if depth > 3:
        return 'Viewer'
    rec = fx.fns[fid]
    roles = []
    for bb in rec['bbs']:
        for s in bb['s']:
            if s[0] == 'A' and s[2][0] == 'agg' and s[2][1].startswith('adt:' + ROLE_ADT + '::'):
                roles.append(s[2][1].split('::')[-1])
        t = bb['t']
        if t['k'] == 'call' and 'def' in t['f']:
            nm = t['f'].get('inst') or t['f']['def']
            if nm in fx.fns and fx.fns[nm]['locals'][0] == ROLE_ADT and nm != fid:
                roles.append(_min_role_of_fn(fx, nm, depth + 1))
            elif nm not in fx.fns and not t['d'][1] and rec['locals'][t['d'][0]] == ROLE_ADT:
                roles.append('Viewer')   # role produced by opaque code
    if not roles:
        return 'Viewer'
    return min(roles, key=ROLE_ORDER.index)


def _derived_methods(fx):
    s = set()
    for im in fx.impls:
        if im.get('derived'):
            for _, m in im['methods']:
                s.add(m)
    return s


def effects_of(ctx, roots, derived):
    """effect set of everything reachable from roots (not traversing derived impl methods)"""
    fx, cg = ctx.fx, ctx.cg
    R = cg.reach(roots, stop=lambda n: n in derived)
    eff = []   # (kind, detail, fn)
    for n in sorted(R):
        if n in derived:
            continue
        rec = fx.fns.get(n)
        if rec is None:
            if FS_MUT.search(n):
                eff.append(('E4-fs', n, None))
            elif ATOMIC_MUT.search(n):
                eff.append(('E3-atomic', n, None))
            continue
        if n == 'trust_runtime::hmi::acknowledge_alarm':
            eff.append(('E6-alarm-ack', n, n))
        w, mb = field_writes(rec)
        for ch in w | mb:
            last = ch[-1]
            if last.startswith('trust_runtime::debug::control::DebugState.'):
                eff.append(('E1-debugstate', last.split('.')[-1], n))
            elif last.startswith('trust_runtime::web::pairing::Pairing'):
                eff.append(('E5-pairing', last, n))
        for bb in rec['bbs']:
            if bb['c']:
                continue
            for s in bb['s']:
                if s[0] == 'A' and s[2][0] == 'agg' and s[2][1].startswith('adt:trust_runtime::scheduler::ResourceCommand::'):
                    eff.append(('E2-command', s[2][1].split('::')[-1], n))
            t = bb['t']
            if t['k'] == 'call' and 'def' in t['f']:
                nm = t['f'].get('inst') or t['f']['def']
                if nm.endswith('DerefMut>::deref_mut'):
                    ga = t['f'].get('ga') or ['']
                    if GUARD_MUT.search(ga[0]):
                        inner = re.sub(r"'\w+,? ?", '', ga[0])
                        inner = inner[inner.find('<') + 1:].rstrip('>').lstrip(', ')
                        eff.append(('E3-guard-mut', inner, n))
    return eff, R


def run(ctx):
    fx = ctx.fx

    # ------------------------------------------------------------------ tables
    disp, disp_fns = _str_tables(fx, lambda f: f.startswith(H))
    role_tab, role_fns = _str_tables(fx, lambda f: f == ROLE_TABLE)
    if not role_tab:
        # structural fallback: fn returning AccessRole with a >=10-literal string match
        cands = collections.Counter()
        for m in fx.matches:
            rec = fx.fns.get(m['fn'])
            if rec and rec['locals'][0] == ROLE_ADT and rec['crate'] == 'trust_runtime':
                cands[m['fn']] += sum(1 for a in m['arms'] for p in a['pats'] if p.startswith('lit:str:'))
        best = [f for f, n in cands.items() if n >= 10]
        if len(best) == 1:
            role_tab, role_fns = _str_tables(fx, lambda f: f == best[0])
    r1 = ctx.rule('C18.R1', 'every dispatched request type has an explicit required-role row (no reliance on the default arm)', floor=53, floor_what='request types')
    r1.saw(len(disp) + len(role_tab))
    role_of = {}
    wild_role = None
    for m in fx.matches:
        if m['fn'] in role_fns:
            for arm in m['arms']:
                if any(p == 'wild' or p.startswith('bind:') for p in arm['pats']):
                    wild_role = _role_of_arm(fx, arm['refs'])
    for t, rows in role_tab.items():
        role_of[t] = min((_role_of_arm(fx, refs) for (_, refs, _, _) in rows), key=ROLE_ORDER.index)
    if not role_tab:
        r1.bad('anchor-missing|role-table', 'required-role table not found')
    for t in sorted(disp):
        fnid, refs, line, _ = disp[t][0]
        loc = '%s:%d' % (fx.fns[fnid]['file'], line)
        if len(disp[t]) > 1:
            r1.bad('dup-dispatch|%s' % t, 'request type %r is dispatched by more than one table: %s' % (t, [x[0] for x in disp[t]]), loc=loc)
        elif t in role_of:
            r1.ok('row|%s' % t, loc=loc, detail='required role %s' % role_of[t])
        else:
            r1.bad('row|%s' % t, 'request type %r is dispatched but has no explicit row in the required-role table: it silently gets the default role %s' % (t, wild_role), loc=loc)
    for t in sorted(role_of):
        if t not in disp:
            fnid, refs, line, _ = role_tab[t][0]
            r1.bad('orphan|%s' % t, 'required-role row %r names no dispatched request type (typo or stale row: the real type falls to the default arm)' % t,
                   loc='%s:%d' % (fx.fns[fnid]['file'], line))
    r1.note('dispatch tables: %s' % dict(disp_fns))

    # ------------------------------------------------------------------ R2 effects
    r2 = ctx.rule('C18.R2', 'a request type whose required role is Viewer has an empty effect set (E1 debug state, E2 resource commands, E3 guarded settings/atomics, E4 fs, E5 pairing, E6 alarm ack)', floor=53, floor_what='request types')
    derived = _derived_methods(fx)
    eff_cache = {}
    for t in sorted(disp):
        fnid, refs, line, arm = disp[t][0]
        loc = '%s:%d' % (fx.fns[fnid]['file'], line)
        handlers = tuple(sorted(r for r in refs if r in fx.fns))
        if not handlers:
            r2.bad('no-handler|%s' % t, 'dispatch arm for %r calls no local handler function: effects cannot be computed' % t, loc=loc)
            continue
        if handlers not in eff_cache:
            eff_cache[handlers] = effects_of(ctx, handlers, derived)
        eff, R = eff_cache[handlers]
        r2.saw(len(R))
        role = role_of.get(t, wild_role or 'Viewer')
        if role != 'Viewer':
            r2.ok('effects|%s' % t, loc=loc, detail='role %s; %d effect(s) in %d reachable bodies' % (role, len(eff), len(R)))
            continue
        offending = []
        for kind, detail, where in eff:
            if kind == 'E2-command' and detail in VIEWER_OK_CMDS:
                continue
            if kind == 'E1-debugstate' and detail in VIEWER_OK_DEBUGSTATE:
                continue
            if kind == 'E3-guard-mut' and any(detail.startswith(g) for g in VIEWER_OK_GUARDS):
                continue
            if kind == 'E3-guard-mut' and detail.startswith(('trust_runtime::debug::control::DebugState', 'trust_runtime::web::pairing::PairingState')):
                continue   # decided field-precisely by E1 / E5
            offending.append((kind, detail, where))
        if offending:
            kinds = sorted({(k, d) for k, d, _ in offending})
            k0, d0, w0 = offending[0]
            chain = ctx.cg.chain(handlers[0], {w0} if w0 else {d0}, stop=lambda n: n in derived) or []
            r2.bad('effects|%s' % t, 'request type %r requires only Viewer but its handler can mutate: %s' % (t, kinds[:6]),
                   loc=loc, witness={'effects': [list(x) for x in offending[:10]], 'call_chain': chain})
        else:
            r2.ok('effects|%s' % t, loc=loc, detail='role Viewer; effect set empty over %d reachable bodies' % len(R))
    # config.set: minimum role over all paths
    if 'config.set' in role_of:
        if ROLE_ORDER.index(role_of['config.set']) >= ROLE_ORDER.index('Engineer'):
            r2.ok('config.set-min-role', detail='minimum over all return paths: %s' % role_of['config.set'])
        else:
            r2.bad('config.set-min-role', 'config.set can be authorised with role %s on some path (needs >= Engineer)' % role_of['config.set'])
    cs = 'trust_runtime::control::required_role_for_config_set'
    if cs in fx.fns:
        keys = set()
        for m in fx.matches:
            if m['fn'].startswith(cs):
                for arm in m['arms']:
                    for p in arm['pats']:
                        if p.startswith('lit:str:'):
                            keys.add(p[8:])
        need = {'control.auth_token', 'mesh.auth_token', 'control.mode', 'web.auth'}
        r2.saw(len(keys))
        if need <= keys:
            r2.ok('config.set-admin-keys', detail=sorted(keys))
        else:
            r2.bad('config.set-admin-keys', 'credential-bearing config keys no longer force Admin: missing %s' % sorted(need - keys),
                   loc='%s:%d' % (fx.fns[cs]['file'], fx.fns[cs]['line']))

    # ------------------------------------------------------------------ R3 debug gate set
    r3 = ctx.rule('C18.R3', 'every request type dispatched by the debug and variables dispatchers is in the debug-class set', floor=22, floor_what='debug-class types')
    dbg, dbg_fns = _str_tables(fx, lambda f: f == DEBUG_SET)
    if not dbg:
        r3.bad('anchor-missing|debug-set', 'debug-class set (is_debug_request) not found')
    for t in sorted(disp):
        fnid = disp[t][0][0]
        mod = fnid[len(H):].split('::')[0]
        if mod in ('debug', 'variables'):
            r3.saw()
            loc = '%s:%d' % (fx.fns[fnid]['file'], disp[t][0][2])
            if t in dbg:
                r3.ok('debug-class|%s' % t, loc=loc)
            else:
                r3.bad('debug-class|%s' % t, 'debug-class request %r (dispatched by handlers::%s) is not in the debug gate set: it executes while debugging is disabled' % (t, mod), loc=loc)

    # ------------------------------------------------------------------ R4 gate order
    r4 = ctx.rule('C18.R4', 'dispatcher is reachable only through role resolution, allows(required) and the debug gate, in that order; only the gate calls the dispatcher; only dispatch arms call handlers', floor=6)
    gate = ctx.anchor(r4, GATE, alt=lambda fx_: _unique_caller(ctx, DISPATCH))
    if gate is not None:
        _gate_order(ctx, r4, gate, disp)

    # ------------------------------------------------------------------ R5 role order
    r5 = ctx.rule('C18.R5', 'AccessRole is declared Viewer<Operator<Engineer<Admin with derived ordering and allows() is self >= required', floor=3)
    adt = fx.adts.get(ROLE_ADT)
    if adt is None:
        r5.bad('anchor-missing|AccessRole', 'AccessRole enum not found')
    else:
        r5.saw(len(adt['variants']))
        names = [v['name'] for v in adt['variants']]
        if names == ROLE_ORDER:
            r5.ok('variant-order', detail=names)
        else:
            r5.bad('variant-order', 'AccessRole variants are declared %s; derived ordering no longer ranks Viewer<Operator<Engineer<Admin' % names)
        for tr in ('core::cmp::PartialOrd', 'core::cmp::Ord'):
            ims = [im for im in fx.impls if im['trait'].startswith(tr) and im['self'] == ROLE_ADT]
            r5.saw(len(ims))
            if ims and all(im.get('derived') for im in ims):
                r5.ok('derived|%s' % tr)
            elif ims:
                r5.bad('derived|%s' % tr, '%s for AccessRole is hand-written: its order is not the declaration order by construction' % tr)
            else:
                r5.bad('derived|%s' % tr, 'no %s impl for AccessRole' % tr)
        al = fx.fns.get(ROLE_ADT + '::allows')
        if al is None:
            r5.bad('anchor-missing|allows', 'AccessRole::allows not found')
        else:
            f = F(al)
            cmpc = f.calls(lambda n: re.search(r'PartialOrd(<.*>)?>?::(ge|gt|le|lt)$', n) is not None)
            r5.saw(len(f.bbs))
            good = False
            if len(cmpc) == 1:
                b, nm, t = cmpc[0]
                a0 = operand_origins(f, t['a'][0])
                a1 = operand_origins(f, t['a'][1])
                op = nm.rsplit('::', 1)[-1]
                self_first = ('arg', 1) in a0 and ('arg', 2) in a1 and ('arg', 2) not in a0
                self_second = ('arg', 2) in a0 and ('arg', 1) in a1 and ('arg', 1) not in a0
                ret_direct = not t['d'][1] and t['d'][0] == 0
                good = ret_direct and ((self_first and op == 'ge') or (self_second and op == 'le'))
            if good:
                r5.ok('allows-shape', loc=f.loc(0))
            else:
                r5.bad('allows-shape', 'AccessRole::allows is not `self >= required` returned directly', loc=f.loc(0))

    # ------------------------------------------------------------------ R6 authentication shape
    r6 = ctx.rule('C18.R6', 'with an auth token configured, every Ok(role) of role resolution is dominated by the token equality or a validated pairing token; fallthrough is Err', floor=2)
    rr = ctx.anchor(r6, RESOLVE)
    if rr is not None:
        _auth_shape(ctx, r6, rr)

    # ------------------------------------------------------------------ R7 no explicit panics before dispatch
    r7 = ctx.rule('C18.R7', 'no explicit panic call in the request entry functions (malformed input yields an error reply)', floor=2)
    for fid in ('trust_runtime::control::handle_request_line', GATE, RESOLVE, ROLE_TABLE, DEBUG_SET):
        rec = fx.fns.get(fid)
        if rec is None:
            continue
        bodies = [rec] + [fx.fns[c] for c in fx.closures_of(fid)]
        n_bad = 0
        for r_ in bodies:
            f = F(r_)
            r7.saw(len(f.g))
            for b, nm, t in f.calls(lambda n: PANIC.search(n) is not None):
                n_bad += 1
                r7.bad('panic|%s|%s' % (fid, nm), 'explicit panic site %s in the request entry path' % nm, loc=f.loc(b))
            # slicing a str by byte offsets panics inside a multi-byte character: in the entry path only whole-string
            # or char-boundary-checked slices are acceptable
            for b, nm, t in f.calls(lambda n: re.search(r'core::str::traits::<impl core::ops::index::Index<I> for str>::index$', n) is not None):
                ga = ' '.join(t['f'].get('ga') or [])
                if 'RangeFull' in ga:
                    continue
                cb = f.blocks_calling(lambda n: n.endswith('str>::is_char_boundary') or n.endswith('::is_char_boundary') or n.endswith('::floor_char_boundary'))
                if cb and any(f.dominates(x, b) for x in cb):
                    continue
                n_bad += 1
                r7.bad('str-slice|%s' % fid, 'the request entry path slices a string by byte offsets (%s) without a char-boundary check: a request line with a multi-byte character at that offset panics the connection thread before any authentication' % ga.split('::')[-1][:40], loc=f.loc(b))
            # indexing with BoundsCheck on request-derived data
            for b in f.g:
                t = f.term(b)
                if t['k'] == 'assert' and t['m'] in ('BoundsCheck',):
                    n_bad += 1
                    r7.bad('bounds|%s' % fid, 'indexing with a bounds-check panic in the request entry path', loc=f.loc(b))
        if not n_bad:
            r7.ok('no-panic|%s' % fid)

    # ------------------------------------------------------------------ R9 arithmetic in the control plane
    from .. import arith
    r9 = ctx.rule('C18.R9', 'no unchecked arithmetic in the control plane: every overflow / division assert site in control::*, web::pairing and the Duration constructors is discharged or reviewed', floor=15, floor_what='arithmetic assert sites')
    R9_REVIEWED = {
        ('value::datetime::Duration::as_millis', 'Div'): (1, 'divisor is the constant 1_000_000 (the only overflowing i64 division is MIN / -1)'),
        ('web::pairing::PairingStore::claim', 'Add'): (1, 'now + TTL constant with now = wall-clock seconds (u64), centuries from overflow; not request-derived'),
        ('web::pairing::PairingStore::start_pairing', 'Add'): (1, 'now + TTL constant, as claim'),
        ('web::pairing::normalize_loaded_tokens', 'Add'): (1, 'now + 1 with now = wall-clock seconds'),
    }
    seen9 = {}
    for k in sorted(fx.fns):
        if not (k.startswith('trust_runtime::control') or k.startswith('trust_runtime::value::datetime') or k.startswith('trust_runtime::web::pairing')) or '::tests::' in k:
            continue
        f = F(fx.fns[k])
        for (b, kind, op, ops) in arith.sites(f):
            r9.saw()
            short = k[len('trust_runtime::'):]
            key = 'arith|%s|%s|%s' % (short, kind, op)
            why = arith.discharge(f, b, kind, op, ops)
            if why:
                r9.ok(key, loc=f.loc(b), detail=why)
                continue
            rk = (short.split('::{closure')[0], op)
            if rk in R9_REVIEWED:
                seen9[rk] = seen9.get(rk, 0) + 1
                if seen9[rk] <= R9_REVIEWED[rk][0]:
                    r9.excepted(key, R9_REVIEWED[rk][1], loc=f.loc(b))
                    continue
            r9.bad(key, 'unchecked `%s` in the control plane (%s): a request carrying an extreme number panics the request thread (debug / overflow-checked builds) or silently wraps; a panic while a settings or state lock is held poisons it for every later request' % (op, short.split('::')[-1]), loc=f.loc(b))

    # ------------------------------------------------------------------ R8 pairing token validity
    r8 = ctx.rule('C18.R8', 'pairing validation prunes expired tokens first, matches only enabled tokens, revoke only disables, requested roles never grant Admin', floor=3)
    _pairing(ctx, r8)


PANIC = re.compile(r'(Option|Result)(::)?<.*>::(unwrap|expect|unwrap_err|expect_err)$|core::panicking::|std::rt::begin_panic|'
                   r'std::process::(exit|abort)$|core::option::unwrap_failed|core::result::unwrap_failed|core::option::expect_failed|'
                   r'::copy_from_slice$|::split_at$|::split_at_mut$')


def _unique_caller(ctx, callee):
    cs = {a for a, _, _ in ctx.cg.callers(callee) if not a.startswith(H)}
    return list(cs)[0] if len(cs) == 1 else None


def _gate_order(ctx, r4, gate, disp):
    fx = ctx.fx
    r4.saw(len(gate.g))
    dcalls = gate.calls(lambda n: n == DISPATCH)
    if len(dcalls) != 1:
        r4.bad('dispatch-site', 'expected exactly one call of handlers::dispatch in the gate function, found %d' % len(dcalls), loc=gate.loc(0))
        return
    dbb = dcalls[0][0]

    def one(pred, what):
        cs = gate.calls(pred)
        if len(cs) != 1:
            r4.bad('gate-site|%s' % what, 'expected exactly one call of %s in the gate function, found %d' % (what, len(cs)), loc=gate.loc(0))
            return None
        return cs[0]
    rr = one(lambda n: n == RESOLVE, 'resolve_request_role')
    al = one(lambda n: n == ROLE_ADT + '::allows', 'AccessRole::allows')
    rq = one(lambda n: n == ROLE_TABLE, 'required_role_for_control_request')
    dg = one(lambda n: n == DEBUG_SET, 'is_debug_request')
    if None in (rr, al, rq, dg):
        return
    # (a) resolve Ok edge
    pos_rr, neg_rr, _ = call_result_edges(gate, rr[0])
    if guarded(gate, dbb, pos_rr):
        r4.ok('gate|resolve-ok', loc=gate.loc(rr[0]))
    else:
        r4.bad('gate|resolve-ok', 'handlers::dispatch is reachable without passing the Ok edge of resolve_request_role',
               loc=gate.loc(dbb), witness={'path_lines': gate.path_lines(unguarded_path(gate, dbb, pos_rr))})
    # (b) allows true edge, with arguments (request role from resolve, required from the table)
    pos_al, neg_al, _ = call_result_edges(gate, al[0])
    if guarded(gate, dbb, pos_al):
        r4.ok('gate|allows-true', loc=gate.loc(al[0]))
    else:
        r4.bad('gate|allows-true', 'handlers::dispatch is reachable without passing the true edge of allows(required_role)',
               loc=gate.loc(dbb), witness={'path_lines': gate.path_lines(unguarded_path(gate, dbb, pos_al))})
    a0 = {o[2] for o in operand_origins(gate, al[2]['a'][0]) if o[0] == 'call'}
    a1 = {o[2] for o in operand_origins(gate, al[2]['a'][1]) if o[0] == 'call'}
    if a0 == {RESOLVE} and a1 == {ROLE_TABLE}:
        r4.ok('gate|allows-args', loc=gate.loc(al[0]), detail='self <- resolve_request_role, required <- required_role_for_control_request')
    else:
        r4.bad('gate|allows-args', 'allows() is not called as <resolved role>.allows(<required role>): self from %s, argument from %s' % (sorted(a0), sorted(a1)), loc=gate.loc(al[0]))
    # required-role lookup must use the same request type string as the dispatcher sees
    rq_o = operand_origins(gate, rq[2]['a'][0])
    if any(o[0] == 'field' and o[1].endswith('ControlRequest.type') for o in rq_o):
        r4.ok('gate|role-lookup-key', loc=gate.loc(rq[0]))
    else:
        r4.bad('gate|role-lookup-key', 'required_role_for_control_request is not keyed by request.type', loc=gate.loc(rq[0]))
    # (c) debug gate: two-edge cut {debug_enabled true, is_debug_request false}
    pos_dg, neg_dg, _ = call_result_edges(gate, dg[0])
    loads = gate.calls(lambda n: re.search(r'atomic::Atomic\w*(::<[^>]*>)?::load$', n) is not None)
    en_pos = set()
    for b, nm, t in loads:
        o = operand_origins(gate, t['a'][0])
        if any(x[0] == 'field' and x[1].endswith('ControlState.debug_enabled') for x in o):
            p, n_, _ = call_result_edges(gate, b)
            en_pos |= p
    cut = set(neg_dg) | en_pos
    if neg_dg and guarded(gate, dbb, cut):
        r4.ok('gate|debug', loc=gate.loc(dg[0]))
    else:
        r4.bad('gate|debug', 'handlers::dispatch is reachable for a debug-class request while debug_enabled is false',
               loc=gate.loc(dbb), witness={'path_lines': gate.path_lines(unguarded_path(gate, dbb, cut))})
    dg_o = operand_origins(gate, dg[2]['a'][0])
    if any(o[0] == 'field' and o[1].endswith('ControlRequest.type') for o in dg_o):
        r4.ok('gate|debug-key', loc=gate.loc(dg[0]))
    else:
        r4.bad('gate|debug-key', 'is_debug_request is not keyed by request.type', loc=gate.loc(dg[0]))
    # (d) order: allows site guarded by resolve-ok; debug gate guarded by allows-true
    if guarded(gate, al[0], pos_rr) and guarded(gate, dg[0], pos_al):
        r4.ok('gate|order', detail='resolve -> allows -> debug gate -> dispatch')
    else:
        r4.bad('gate|order', 'gates are not nested in the order authentication -> authorisation -> debug gate', loc=gate.loc(al[0]))
    # (e) the dispatcher sees the same request value that was gated
    d_o = operand_origins(gate, dcalls[0][2]['a'][0])
    rr_o = operand_origins(gate, rr[2]['a'][0])
    base = lambda os: {o for o in os if o[0] in ('call', 'arg')}
    if base(d_o) == base(rr_o) and base(d_o):
        r4.ok('gate|same-request', detail=sorted(map(str, base(d_o))))
    else:
        r4.bad('gate|same-request', 'the request passed to the dispatcher is not the value that was authorised', loc=gate.loc(dbb))
    # (f) who may call
    cg = ctx.cg
    outside = sorted({a for a, _, _ in cg.callers(DISPATCH) if a != gate.id and not a.startswith(gate.id + '::{closure')})
    r4.saw(len(cg.callers(DISPATCH)))
    if outside:
        r4.bad('who-calls|dispatch', 'handlers::dispatch is called from outside the gate function: %s' % outside, loc=F(fx.fns[outside[0]]).loc(0) if outside[0] in fx.fns else None)
    else:
        r4.ok('who-calls|dispatch')
    sub = sorted(set(v[0][0] for v in disp.values()))
    for s in sub:
        cs = sorted({a for a, _, _ in cg.callers(s) if not (a == DISPATCH or a.startswith(DISPATCH + '::{closure'))})
        r4.saw(len(cg.callers(s)))
        if cs:
            r4.bad('who-calls|%s' % s, 'sub-dispatcher %s is called from outside handlers::dispatch: %s' % (s, cs))
        else:
            r4.ok('who-calls|%s' % s)
    handlers = sorted({r for v in disp.values() for r in v[0][1] if r in fx.fns and r.startswith('trust_runtime::control::handle_')})
    bad_h = []
    for h in handlers:
        for a, bb, _ in cg.callers(h):
            r4.saw()
            if a in sub:
                continue
            bad_h.append((h, a))
    if bad_h:
        for h, a in sorted(set(bad_h)):
            r4.bad('who-calls|handler|%s|%s' % (h.split('::')[-1], a), 'handler %s is called from %s, bypassing role and debug gates' % (h, a),
                   loc=F(fx.fns[a]).loc(0) if a in fx.fns else None)
    else:
        r4.ok('who-calls|handlers', detail='%d handler functions, each called only from its dispatch arm' % len(handlers))
    # (g) callers of the gate function itself pass through unchanged: transport + web only (informational)
    gcallers = sorted({a for a, _, _ in cg.callers(gate.id)})
    r4.note('gate function callers: %s' % gcallers)


def _auth_shape(ctx, r6, rr):
    """In resolve_request_role: Ok(..) returns in the auth_token=Some region."""
    r6.saw(len(rr.g))
    # the test on `expected` (Option<String> from auth_token)
    # the configured-token option: an Option-typed local that derives from ControlState.auth_token and is tested
    # (the source name `expected` is only a tie-breaker)
    _xp = lambda n: re.search(r'Mutex(::)?<.*>::lock$|Option(::)?<.*>::and_then$|Result(::)?<.*>::ok$', n) is not None
    cands = []
    for l in sorted(rr.defs):
        if rr.local_ty(l).startswith('core::option::Option<') and 1 <= len(rr.defs[l]):
            if any(o[0] == 'field' and o[1].endswith('ControlState.auth_token') for o in origins(rr, l, extra_pass=_xp)):
                if test_edges(rr, {l: ('val', 'Option')})[0]:
                    cands.append(l)
    named = set(rr.local_of('expected'))
    opt = sorted(cands, key=lambda l: (l not in named, l))
    if not opt:
        r6.bad('shape|expected', 'cannot find the configured-token option local `expected`', loc=rr.loc(0))
        return
    pos_e, neg_e, sw = test_edges(rr, {opt[0]: ('val', 'Option')})
    if not pos_e:
        r6.bad('shape|expected-test', 'no test of the configured auth token found', loc=rr.loc(0))
        return
    # the value must come from state.auth_token
    oo = origins(rr, opt[0], extra_pass=lambda n: re.search(r'Mutex(::)?<.*>::lock$|Option(::)?<.*>::and_then$|Result(::)?<.*>::ok$', n) is not None)
    if not any(o[0] == 'field' and o[1].endswith('ControlState.auth_token') for o in oo):
        r6.bad('shape|expected-source', '`expected` does not derive from ControlState.auth_token', loc=rr.loc(0))
        return
    region = set()
    for (a, b) in pos_e:
        region |= rr.reach([b])
    # blocks only reachable via Some edge
    none_side = set()
    for (a, b) in neg_e:
        none_side |= rr.reach([b])
    # Ok constructions: aggregates Result::Ok assigned to _0
    eq_calls = rr.calls(lambda n: re.search(r'PartialEq(<.*>)?>::eq$|ConstantTimeEq>::ct_eq$|constant_time_eq$', n) is not None)
    # a local comparison helper is accepted as "the equality" only if it provably compares in full
    for b, nm, t in rr.calls(lambda n: n in ctx.fx.fns and ctx.fx.fns[n]['locals'][0] == 'bool' and ctx.fx.fns[n]['argc'] >= 2):
        xp = lambda n: re.search(r'Mutex(::)?<.*>::lock$|Option(::)?<.*>::and_then$|Result(::)?<.*>::ok$', n) is not None
        srcs = set()
        for a in t['a']:
            srcs |= operand_origins(rr, a, extra_pass=xp)
        if any(o[0] == 'field' and o[1].endswith('ControlRequest.auth') for o in srcs) and any(o[0] == 'field' and o[1].endswith('ControlState.auth_token') for o in srcs):
            why = _helper_full_equality(ctx, nm)
            if why is None:
                eq_calls.append((b, nm, t))
                r6.ok('eq-helper|%s' % nm.split('::')[-1], loc=rr.loc(b), detail='helper compares lengths / full equality')
            else:
                r6.bad('eq-helper|%s' % nm.split('::')[-1], 'token comparison helper %s does not establish full equality: %s' % (nm, why), loc=rr.loc(b))
    # a comparison helper that is new against the baseline was spliced in by the virtual inliner: it is judged as the
    # unit it is in the source, and the test of its result is the permit
    extra_permits = set()
    spliced_eq = False
    for sp in rr.r.get('spliced', []):
        hrec = getattr(ctx.fx, 'dropped_helpers', {}).get(sp['helper']) or ctx.fx.fns.get(sp['helper'])
        if hrec is None or hrec['locals'][0] != 'bool' or hrec['argc'] < 2 or sp['dest'][1]:
            continue
        xp = lambda n: re.search(r'Mutex(::)?<.*>::lock$|Option(::)?<.*>::and_then$|Result(::)?<.*>::ok$', n) is not None
        srcs = set()
        for a in sp['args']:
            srcs |= operand_origins(rr, a, extra_pass=xp)
        if any(o[0] == 'field' and o[1].endswith('ControlRequest.auth') for o in srcs) and any(o[0] == 'field' and o[1].endswith('ControlState.auth_token') for o in srcs):
            why = _helper_full_equality(ctx, sp['helper'])
            short = sp['helper'].split('::')[-1]
            if why is None:
                extra_permits |= test_edges(rr, {sp['dest'][0]: ('bool', True)})[0]
                spliced_eq = True
                r6.ok('eq-helper|%s' % short, loc=rr.loc(sp['block']), detail='helper compares lengths / full equality')
            else:
                r6.bad('eq-helper|%s' % short, 'token comparison helper %s does not establish full equality: %s' % (sp['helper'], why), loc=rr.loc(sp['block']))
    # comparison wrapped in a closure: `provided.is_some_and(|t| <eq or helper>(t, expected))`
    for b, nm, t in rr.calls(lambda n: re.search(r'Option(::)?<.*>::(is_some_and|map_or|is_none_or)$', n) is not None):
        xp = lambda n: re.search(r'Mutex(::)?<.*>::lock$|Option(::)?<.*>::and_then$|Result(::)?<.*>::ok$', n) is not None
        recv = operand_origins(rr, t['a'][0], extra_pass=xp)
        if not any(o[0] == 'field' and o[1].endswith('ControlRequest.auth') for o in recv):
            continue
        clo = None
        caps = set()
        for a in t['a'][1:]:
            for o in operand_origins(rr, a, extra_pass=xp):
                if o[0] == 'agg' and o[1].startswith('closure:'):
                    clo = o[1][8:]
                caps.add(o)
        if clo is None or clo not in ctx.fx.fns:
            continue
        if not any(o[0] == 'field' and o[1].endswith('ControlState.auth_token') for o in caps):
            continue
        cf = F(ctx.fx.fns[clo])
        inner = cf.calls(lambda n: re.search(r'PartialEq(<.*>)?>::eq$|ConstantTimeEq>::ct_eq$', n) is not None or (n in ctx.fx.fns and ctx.fx.fns[n]['locals'][0] == 'bool'))
        if len(inner) != 1:
            # the comparison is written out in the closure (or a new helper was spliced into it): the closure
            # itself is judged as the comparison helper, its parameters being the captured token and the argument
            if _helper_full_equality(ctx, clo) is None:
                r6.ok('eq-helper|closure', loc=cf.loc(0), detail='closure compares lengths / full equality')
                eq_calls.append((b, nm, {'a': [t['a'][0], ['k', 'str', 'captured ControlState.auth_token']], 'd': t['d'], '_closure_eq': True}))
            continue
        ib, inm, it = inner[0]
        if inm in ctx.fx.fns:
            why = _helper_full_equality(ctx, inm)
            if why is not None:
                r6.bad('eq-helper|%s' % inm.split('::')[-1], 'token comparison helper %s does not establish full equality: %s' % (inm, why), loc=cf.loc(ib))
                continue
            r6.ok('eq-helper|%s' % inm.split('::')[-1], loc=cf.loc(ib), detail='helper compares lengths / full equality')
        eq_calls.append((b, nm, {'a': [t['a'][0], ['k', 'str', 'captured ControlState.auth_token']], 'd': t['d'], '_closure_eq': True}))
    vw_calls = rr.calls(lambda n: n.endswith('PairingStore::validate_with_role'))
    permits = set(extra_permits)
    for b, nm, t in eq_calls:
        p, n_, _ = call_result_edges(rr, b)
        permits |= p
    for b, nm, t in vw_calls:
        p, n_, _ = call_result_edges(rr, b)
        permits |= p
    oks = []
    for b in rr.g:
        for s in rr.bbs[b]['s']:
            if s[0] == 'A' and s[1][0] == 0 and s[2][0] == 'agg' and s[2][1].endswith('Result::Ok'):
                oks.append((b, s))
    n_region = 0
    for b, s in oks:
        only_some = b in region and not _reachable_avoiding(rr, b, pos_e)
        if only_some:
            n_region += 1
            if guarded(rr, b, permits | neg_e):
                # reaching b without a permit edge is impossible (other than via the None side, excluded by only_some)
                r6.ok('ok-return|guarded', loc=rr.loc(b))
            else:
                r6.bad('ok-return|unguarded', 'with an auth token configured, a role is granted on a path that passed neither the token equality nor validate_with_role',
                       loc=rr.loc(b), witness={'path_lines': rr.path_lines(unguarded_path(rr, b, permits | neg_e))})
    if n_region == 0:
        r6.bad('shape|no-ok-in-region', 'found no Ok(role) return inside the token-configured region (shape not recognised)', loc=rr.loc(0))
    # Admin grant in the region must be the equality one: value Admin is only assigned under the eq true edge
    # fallthrough is Err
    errs = [b for b in rr.g for s in rr.bbs[b]['s'] if s[0] == 'A' and s[1][0] == 0 and s[2][0] == 'agg' and s[2][1].endswith('Result::Err')]
    if any(b in region and not _reachable_avoiding(rr, b, pos_e) for b in errs):
        r6.ok('fallthrough-err')
    else:
        r6.bad('fallthrough-err', 'no Err(unauthorized) fallthrough in the token-configured region', loc=rr.loc(0))
    # equality compares the provided token with the expected one
    okeq = spliced_eq
    for b, nm, t in eq_calls:
        if t.get('_closure_eq'):
            okeq = True
            continue
        xp = lambda n: re.search(r'Mutex(::)?<.*>::lock$|Option(::)?<.*>::and_then$|Result(::)?<.*>::ok$', n) is not None
        o0 = operand_origins(rr, t['a'][0], extra_pass=xp)
        o1 = operand_origins(rr, t['a'][1], extra_pass=xp)
        srcs = o0 | o1
        has_auth = any(o[0] == 'field' and o[1].endswith('ControlRequest.auth') for o in srcs)
        has_exp = any(o[0] == 'field' and o[1].endswith('ControlState.auth_token') for o in srcs)
        if has_auth and has_exp:
            okeq = True
    if okeq:
        r6.ok('eq-operands')
    else:
        r6.bad('eq-operands', 'the admin-token equality does not compare request.auth with ControlState.auth_token', loc=rr.loc(0))


def _helper_full_equality(ctx, hid):
    """None if every possibly-true return of the bool helper is guarded by a full equality
    (PartialEq::eq over values of two different parameters) or by a length-equality test of
    two different parameters; else the reason."""
    fx = ctx.fx
    fn = F(fx.fns.get(hid) or getattr(fx, 'dropped_helpers', {})[hid])
    argc = fn.r['argc']

    def params_of(o):
        return {x[1] for x in operand_origins(fn, o, extra_pass=lambda n: re.search(r'::(bytes|as_bytes|as_str|len|unwrap_or|unwrap_or_default|map|as_deref)$', n) is not None) if x[0] == 'arg'}
    cut = set()
    for b, nm, t in fn.calls(lambda n: re.search(r'PartialEq(<.*>)?>::eq$|ConstantTimeEq>::ct_eq$', n) is not None):
        ps = set()
        for a in t['a'][:2]:
            ps |= params_of(a)
        if len(ps) >= 2:
            pos, neg, _ = call_result_edges(fn, b)
            if not t['d'][1] and t['d'][0] == 0:
                return None      # returns the full comparison directly
            cut |= pos

    def is_len_cmp(op, a, c, bb):
        if op not in ('Eq', 'Ne'):
            return None
        oa = {x[2] for x in operand_origins(fn, a) if x[0] == 'call'}
        oc = {x[2] for x in operand_origins(fn, c) if x[0] == 'call'}
        if any(n.endswith('::len') for n in oa) and any(n.endswith('::len') for n in oc):
            pa = set()
            for bb2, nm2, t2 in fn.calls(lambda n: n.endswith('::len')):
                pa |= params_of(t2['a'][0])
            if len(pa) >= 2:
                return op == 'Eq'
        return None
    seeds = compare_seeds(fn, is_len_cmp)
    if seeds:
        pos, neg, _ = test_edges(fn, seeds)
        cut |= pos
    if not cut:
        return 'no length comparison and no full equality over both parameters (a zip/fold comparison truncates to the shorter input)'
    # result locals: the return place and every local copied into it
    res = {0}
    grew = True
    while grew:
        grew = False
        for b in fn.g:
            for st in fn.bbs[b]['s']:
                if st[0] == 'A' and st[1][0] in res and not st[1][1] and st[2][0] == 'use' and st[2][1][0] in ('c', 'm') and not st[2][1][1][1]:
                    if st[2][1][1][0] not in res:
                        res.add(st[2][1][1][0])
                        grew = True
    for b in fn.g:
        for st in fn.bbs[b]['s']:
            if st[0] == 'A' and st[1][0] in res and not st[1][1]:
                rv = st[2]
                if rv[0] == 'use' and rv[1][0] == 'k' and 'false' in rv[1][2]:
                    continue
                if rv[0] == 'use' and rv[1][0] in ('c', 'm') and not rv[1][1][1] and rv[1][1][0] in res:
                    continue
                if not guarded(fn, b, cut):
                    return 'a possibly-true result at line %d is reachable without passing the length/equality test' % fn.line(b)
        t = fn.term(b)
        if t['k'] == 'call' and not t['d'][1] and t['d'][0] in res and not guarded(fn, b, cut):
            return 'a computed result at line %d is reachable without passing the length/equality test' % fn.line(b)
    return None


def _reachable_avoiding(fn, b, edges):
    """b reachable from entry without the given edges"""
    return b in fn.reach([0], removed_edges=edges)


def _pairing(ctx, r8):
    fx = ctx.fx
    P = 'trust_runtime::web::pairing::PairingStore::'
    v = fx.fns.get(P + 'validate_with_role')
    if v is None:
        r8.bad('anchor-missing|validate_with_role', 'PairingStore::validate_with_role not found')
        return
    f = F(v)
    r8.saw(len(f.g))
    prune = f.calls(lambda n: n.endswith('prune_expired_tokens'))
    lookups = f.calls(lambda n: re.search(r'Iterator>::(find|position|any|find_map)$|::iter$', n) is not None)
    finds = f.calls(lambda n: re.search(r'Iterator>::(find|position|any|find_map)$', n) is not None)
    if not prune:
        r8.bad('prune-first', 'validate_with_role does not prune expired tokens before the lookup', loc=f.loc(0))
    elif finds and all(f.dominates(prune[0][0], b) for b, _, _ in finds):
        r8.ok('prune-first', loc=f.loc(prune[0][0]))
    elif not finds:
        r8.bad('prune-first', 'token lookup shape not recognised (no find/any/position over tokens)', loc=f.loc(0))
    else:
        r8.bad('prune-first', 'a token lookup is reachable before prune_expired_tokens', loc=f.loc(finds[0][0]))
    # predicate closures read both `enabled` and `token`
    from ..cg import field_reads
    reads = set()
    for c in fx.closures_of(v['id']):
        for ch in field_reads(fx.fns[c]):
            reads.add(ch[-1])
    for ch in field_reads(v):
        reads.add(ch[-1])
    need = {'trust_runtime::web::pairing::PairingToken.enabled', 'trust_runtime::web::pairing::PairingToken.token'}
    if need <= reads:
        r8.ok('predicate-fields')
    else:
        r8.bad('predicate-fields', 'token lookup no longer tests %s' % sorted(x.split('.')[-1] for x in need - reads), loc=f.loc(0))
    # prune_expired_tokens compares expiry against now
    pr = fx.fns.get(P + 'prune_expired_tokens') or fx.fns.get('trust_runtime::web::pairing::prune_expired_tokens')
    # sanitize_requested_role never returns Admin
    s = None
    for k in fx.fns:
        if k.endswith('::sanitize_requested_role') and k.startswith('trust_runtime::web::pairing'):
            s = k
    if s is None:
        r8.note('sanitize_requested_role not found (skipped)')
    else:
        rec = fx.fns[s]
        r8.saw(len(rec['bbs']))
        admin = False
        for bb in rec['bbs']:
            for st in bb['s']:
                if st[0] == 'A' and st[2][0] == 'agg' and st[2][1] == 'adt:' + ROLE_ADT + '::Admin':
                    admin = True
        # returning the input unchanged in an arm whose pattern is Admin would also grant it: check the match table
        passthrough_admin = False
        for m in fx.matches_in(s):
            for arm in m['arms']:
                pats = arm['pats']
                if any(p.endswith('AccessRole::Admin') or 'AccessRole::Admin' in p for p in pats):
                    if not any(r_.startswith(ROLE_ADT + '::') and not r_.endswith('::Admin') for r_ in arm['refs']):
                        passthrough_admin = True
        if admin or passthrough_admin:
            r8.bad('sanitize-no-admin', 'sanitize_requested_role can return Admin', loc='%s:%d' % (rec['file'], rec['line']))
        else:
            r8.ok('sanitize-no-admin')
    # revoke* only ever clear `enabled`
    for k in sorted(fx.fns):
        if k.startswith(P + 'revoke') and '{closure' not in k:
            bodies = [fx.fns[k]] + [fx.fns[c] for c in fx.closures_of(k)]
            bad = False
            n = 0
            for rec in bodies:
                for bb in rec['bbs']:
                    if bb['c']:
                        continue
                    for st in bb['s']:
                        if st[0] == 'A' and st[1][1] and any(isinstance(p, list) and p[0] == 'f' and p[1].endswith('PairingToken.enabled') for p in st[1][1]):
                            n += 1
                            if not (st[2][0] == 'use' and st[2][1][0] == 'k' and 'false' in st[2][1][2]):
                                bad = True
            r8.saw(n)
            if bad:
                r8.bad('revoke-only-disables|%s' % k.split('::')[-1], 'a revoke function assigns something other than `false` to PairingToken.enabled')
            elif n:
                r8.ok('revoke-only-disables|%s' % k.split('::')[-1])
            # ... and it disables *every* matching token: the write sits in a loop over the token list that is not
            # left once a match was disabled (ids are not unique: two pairings claimed in the same second share one)
            fn = F(fx.fns[k])
            wr = [b for b in fn.g if fn.assigns_field(b, lambda f: f.endswith('PairingToken.enabled'))]
            short = k.split('::')[-1]
            r8.saw()
            if not wr:
                in_closure = any(any(isinstance(p_, list) and p_[0] == 'f' and p_[1].endswith('PairingToken.enabled') for st in bb['s'] if st[0] == 'A' for p_ in st[1][1])
                                 for c in fx.closures_of(k) for bb in fx.fns[c]['bbs'])
                if in_closure:
                    r8.ok('revoke-all-matches|%s' % short, detail='disables inside an iterator adaptor closure (for_each / retain style)')
                else:
                    r8.bad('revoke-all-matches|%s' % short, '%s no longer disables tokens itself (shape not recognised)' % short, loc=fn.loc(0))
                continue
            loops = [set(c) for c in fn.sccs() if len(c) > 1]
            ok_all = True
            why = None
            for w in wr:
                comp = next((c for c in loops if w in c), None)
                if comp is None:
                    ok_all, why = False, 'the write of `enabled = false` is not inside a loop over the tokens: only one token with the given id is disabled, another token issued under the same id stays valid'
                    break
                hs = {b for b in comp if re.search(r'::next$', fn.call_name(b) or '')}
                # after a match was disabled the loop must go on: from the write, every path returns to the iterator step
                esc = [x for x in fn.reach(list(fn.g.get(w, ())), avoid=hs) if x not in comp]
                if not hs or esc:
                    ok_all, why = False, 'the loop is left after the first token was disabled: another token issued under the same id stays valid'
                    break
            if ok_all:
                r8.ok('revoke-all-matches|%s' % short, loc=fn.loc(wr[0]))
            else:
                r8.bad('revoke-all-matches|%s' % short, '%s: %s (the revoked credential keeps passing the control gate)' % (short, why), loc=fn.loc(wr[0]))
