"""C03 — a variable always holds a value of its declared type.

Storage has no slot type (the Value carries the tag), so the property rests on every store
being preceded by a coercion to the declared type.  Decided statically: (R1) the coercion
tables are tag-correct: an arm for declared type / template N constructs only value class N
(or an error), and every elementary type has an explicit arm; (R2) the store paths that have
a coercion (FOR control, typed I/O latching, initialisers) still pass through it; (R3) every
call of a storage mutator is classified by the provenance of the stored value and the
classification table is frozen: a new store site, or a coerced site becoming uncoerced, is a
violation.  The uncoerced expression stores (assignment, parameter binding, local
initialisers) are a genuine design-level defect and are listed as known findings.  Ranges of
values, element types of structs/arrays and alias/subrange resolution are not decided.
"""
import re
import collections

from ..cfg import place_fields, F, op_local
from ..prov import origins, operand_origins

CRATES = ['trust_runtime']
NODEFAULT_OK = True
EXPLANATION = __doc__

RT = 'trust_runtime::'
MUT = re.compile(r'^trust_runtime::memory::VariableStorage::(set_global|set_local|set_instance_var|write_by_ref|set_retain)$')
COERCERS = re.compile(r'harness::coerce::coerce_value_to_type$|harness::coerce::coerce_value_to_declared_type$|io::coerce_from_io$|eval::stmt::coerce_loop_value$|runtime::cycle::typed_for_slot$')
DEFAULTS = re.compile(r'value::defaults::default_value_for_type_id$|default_value_for_type_id$')
INSTANCES = re.compile(r'instance::create_(fb|class|program)_instance$')
PARTIAL = re.compile(r'partial_access::write_partial_access$|write_partial_access$')
SAME_SLOT_FNS = {
    'runtime::restart::<impl trust_runtime::runtime::core::Runtime>::restart': 'values read from the same slots before the restart / declared initial values prepared by the builder (coerced there)',
    'runtime::restart::<impl trust_runtime::runtime::core::Runtime>::apply_retain_snapshot': 'retain snapshot values were read from the same (global) slots',
    'scheduler::SharedGlobals::sync_into_locked': 'shared globals map is filled from the same-named globals of sibling runtimes (same declaration)',
}
EXTERNAL_FNS = {
    'runtime::mesh::<impl trust_runtime::runtime::core::Runtime>::apply_mesh_updates': 'mesh updates from peer runtimes with the same declarations',
    'runtime::core::Runtime::write_access': 'VAR_ACCESS writes through the access API',
    'harness::harness::TestHarness::set_input': 'test harness input injection',
}
# the frozen table: (function, mutator) -> allowed classes
EXPECTED = {
    ('runtime::cycle::<impl trust_runtime::runtime::core::Runtime>::execute_cycle', 'set_global'): {'coerced'},
    ('runtime::cycle::<impl trust_runtime::runtime::core::Runtime>::execute_cycle', 'set_retain'): {'coerced'},
    ('runtime::cycle::<impl trust_runtime::runtime::core::Runtime>::execute_cycle', 'set_instance_var'): {'coerced'},
    ('runtime::cycle::<impl trust_runtime::runtime::core::Runtime>::execute_cycle', 'set_local'): {'coerced'},
    ('runtime::cycle::<impl trust_runtime::runtime::core::Runtime>::apply_forced_values', 'set_global'): {'coerced'},
    ('runtime::cycle::<impl trust_runtime::runtime::core::Runtime>::apply_forced_values', 'set_retain'): {'coerced'},
    ('runtime::cycle::<impl trust_runtime::runtime::core::Runtime>::apply_forced_values', 'set_instance_var'): {'coerced'},
    ('eval::call_function', 'set_local'): {'default', 'uncoerced'},
    ('eval::call_method', 'set_local'): {'default', 'uncoerced'},
    ('eval::call_function_block', 'set_instance_var'): {'uncoerced'},
    ('eval::expr::access::write_field', 'write_by_ref'): {'uncoerced'},
    ('eval::expr::access::write_name', 'set_local'): {'uncoerced'},
    ('eval::expr::access::write_name', 'write_by_ref'): {'uncoerced', 'partial'},
    ('eval::expr::access::write_name', 'set_global'): {'uncoerced'},
    ('eval::expr::lvalue::write_lvalue', 'write_by_ref'): {'uncoerced'},
    ('eval::init_locals', 'set_local'): {'instance', 'uncoerced'},
    ('eval::init_locals_in_frame', 'set_local'): {'instance', 'uncoerced'},
    ('harness::config::apply_config_inits', 'write_by_ref'): {'partial', 'coerced'},
    ('harness::config::apply_globals', 'set_global'): {'instance', 'default', 'coerced', 'null'},
    ('instance::init_param_defaults', 'set_instance_var'): {'default'},
    ('instance::init_var_defaults', 'set_instance_var'): {'instance', 'default', 'coerced'},
    ('io::IoInterface::read_inputs', 'set_global'): {'coerced'},
    ('io::IoInterface::read_inputs', 'write_by_ref'): {'coerced'},
    ('runtime::core::Runtime::register_program', 'set_global'): {'instance'},
    ('runtime::cycle::<impl trust_runtime::runtime::core::Runtime>::execute_function_block_ref', 'set_instance_var'): {'typed-literal'},
    ('stdlib::fbs::instance::get_or_init_bool', 'set_instance_var'): {'typed-literal'},
    ('stdlib::fbs::instance::write_bool', 'set_instance_var'): {'typed-literal'},
    ('stdlib::fbs::instance::set_instance_value', 'set_instance_var'): {'fb-internal'},
    ('stdlib::fbs::timers::set_internal_duration', 'set_instance_var'): {'typed-literal'},
    ('stdlib::fbs::timers::write_time_value', 'set_instance_var'): {'typed-literal'},
}
F4_WHAT = ('F4: the evaluated expression is stored as-is, without coercion to the declared type of the target '
           '(x:LINT := y:INT holds Int(7); r:REAL := y holds Int(7); n:INT := n + 1 holds DInt(1))')


def classify(fn, t, short):
    val = t['a'][-1]
    oo = operand_origins(fn, val, extra_pass=lambda n: re.search(r'Clone>::clone$|::clone$', n) is not None)
    calls = {o[2] for o in oo if o[0] == 'call'}
    aggs = {o[1] for o in oo if o[0] == 'agg'}
    if any(COERCERS.search(c) for c in calls):
        return 'coerced'
    if any(PARTIAL.search(c) for c in calls):
        return 'partial'
    if any(INSTANCES.search(c) for c in calls) and any(a.endswith('Value::Instance') for a in aggs):
        return 'instance'
    evals = any(re.search(r'eval::(expr::)?eval_expr$|eval_expr$', c) for c in calls)
    if any(DEFAULTS.search(c) for c in calls) and not evals:
        return 'default'
    if short in SAME_SLOT_FNS:
        return 'same-slot'
    if short in EXTERNAL_FNS or short.split('::{closure')[0] in EXTERNAL_FNS:
        return 'external'
    vaggs = [a for a in aggs if 'value::types::Value::' in a]
    if vaggs and not evals and not any(o[0] == 'arg' and fn.local_ty(o[1]).endswith('Value') for o in oo):
        if all(a.endswith('Value::Null') for a in vaggs):
            return 'null'
        return 'typed-literal'
    if short.startswith('stdlib::fbs::'):
        return 'fb-internal'
    return 'uncoerced'


def run(ctx):
    fx, cg = ctx.fx, ctx.cg
    _r1(ctx)
    _r2(ctx)
    # ------------------------------------------------------------------ R3
    r3 = ctx.rule('C03.R3', 'every storage mutator call is classified by the provenance of the stored value; the classification table is frozen', floor=55, floor_what='store sites')
    seen = collections.Counter()
    for k in sorted(fx.fns):
        if not k.startswith(RT) and not k.startswith('<trust_runtime'):
            continue
        if k.startswith('trust_runtime::memory::'):
            continue
        fn = F(fx.fns[k])
        for b, nm, t in fn.calls(lambda n: MUT.search(n) is not None):
            r3.saw()
            short = k[len(RT):] if k.startswith(RT) else k
            base = short.split('::{closure')[0]
            mut = nm.split('::')[-1]
            cls = classify(fn, t, base)
            if base in SAME_SLOT_FNS:
                cls = 'same-slot'
            elif base in EXTERNAL_FNS:
                cls = 'external'
            key = 'store|%s|%s|%s' % (base, mut, cls)
            if cls in ('same-slot', 'external'):
                reason = SAME_SLOT_FNS.get(base) or EXTERNAL_FNS.get(base)
                r3.excepted(key, '%s: %s' % (cls, reason), loc=fn.loc(b))
                continue
            allowed = EXPECTED.get((base, mut))
            SAFE = ('coerced', 'default', 'instance', 'typed-literal', 'null', 'partial')
            if allowed is None:
                if cls in SAFE:
                    # a new store site whose value is type-correct by construction holds the property
                    r3.ok(key, loc=fn.loc(b), detail='new site, class %s' % cls)
                else:
                    r3.bad(key, 'new store site (%s in %s, value class: %s) is not in the classification table: a store that bypasses coercion changes the type tag of the slot' % (mut, base, cls), loc=fn.loc(b))
            elif cls not in allowed:
                if cls in SAFE:
                    r3.ok(key, loc=fn.loc(b), detail='class changed to %s (type-correct by construction)' % cls)
                else:
                    r3.bad(key, 'store site changed class: the value stored by %s in %s is now `%s` (table allows %s)' % (mut, base, cls, sorted(allowed)), loc=fn.loc(b))
            elif cls == 'uncoerced':
                r3.bad(key, F4_WHAT, loc=fn.loc(b))
            else:
                r3.ok(key, loc=fn.loc(b), detail=cls)

    # premise of the `same-slot` exception for restart: the declared initial value a restart re-stores blindly
    # (GlobalInitValue::Value) is the value the builder stored, i.e. read back from the slot after coercion,
    # or itself a coerced / default value
    nseed = 0
    for k in sorted(fx.fns):
        if not k.startswith(RT):
            continue
        fn = F(fx.fns[k])
        for b in fn.g:
            for st in fn.bbs[b]['s']:
                if st[0] == 'A' and st[2][0] == 'agg' and re.search(r'GlobalInitValue::Value$', st[2][1]) and st[2][2]:
                    nseed += 1
                    r3.saw()
                    short = k[len(RT):]
                    oo = operand_origins(fn, st[2][2][0], extra_pass=lambda n: re.search(r'Clone>::clone$|::clone$|::cloned$', n) is not None)
                    calls = {o[2] for o in oo if o[0] == 'call'}
                    key = 'restart-seed|%s' % short
                    if any(re.search(r'VariableStorage::get_global$', c) for c in calls) or any(COERCERS.search(c) or DEFAULTS.search(c) for c in calls):
                        r3.ok(key, loc=fn.loc(b), detail='read back from the slot / coerced')
                    else:
                        r3.bad(key, 'the declared initial value registered for restart (GlobalInitValue::Value) is not the coerced value the builder stored (origins: %s): restart stores it without coercion, so after a restart the global holds a value of another type' % (
                            sorted(c.split('::')[-1] for c in calls)[:4] or sorted(str(o[:2]) for o in oo)[:4]), loc=fn.loc(b))
    if nseed == 0:
        r3.bad('anchor-missing|restart-seed', 'no construction of GlobalInitValue::Value found: the restart seeding changed shape')


def _r1(ctx):
    fx = ctx.fx
    r1 = ctx.rule('C03.R1', 'coercion tables are tag-correct: the arm for type/template N builds only value class N; every elementary type has an explicit arm', floor=40, floor_what='table arms')
    norm = lambda s: s.lower().replace('_', '')
    # (a) coerce_loop_value: template Value::X => builds Value::X
    lv = 'trust_runtime::eval::stmt::coerce_loop_value'
    if lv not in fx.fns:
        r1.bad('anchor-missing|coerce_loop_value', 'function not found')
    else:
        for m in fx.matches_in(lv):
            if not m['sty'].endswith('value::types::Value'):
                continue
            for arm in m['arms']:
                pv = [re.search(r'Value::(\w+)', p).group(1) for p in arm['pats'] if re.search(r'Value::(\w+)', p)]
                cv = sorted({r.split('::')[-1] for r in arm['refs'] if r.startswith('trust_runtime::value::types::Value::')})
                if not pv:
                    continue
                r1.saw()
                for v in pv:
                    if cv and set(cv) != {v}:
                        r1.bad('loop|%s' % v, 'coerce_loop_value builds %s for a control variable of class %s' % (cv, v), loc='%s:%d' % (fx.fns[lv]['file'], arm['line']))
                    elif cv:
                        r1.ok('loop|%s' % v)
    # (a2) template-keyed tables for values that come from outside the program (debugger / control plane / HMI / mesh):
    # the arm for a slot holding Value::X builds only Value::X (premise of treating these writers as typed)
    for fid, what in (('trust_runtime::runtime::cycle::typed_for_slot', 'typed_for_slot'),
                      ('trust_runtime::mesh::json_to_value', 'mesh json_to_value'),
                      ('trust_runtime::control::parse_hmi_write_value', 'parse_hmi_write_value')):
        if fid not in fx.fns:
            r1.bad('anchor-missing|%s' % what.replace(' ', '-'), '%s not found (it types values written from outside the program)' % fid)
            continue
        for m in fx.matches_in(fid):
            sty = m['sty']
            if not ('value::types::Value' in sty):
                continue
            for arm in m['arms']:
                pats = ' '.join(arm['pats'])
                # the slot / template side is the *last* Value pattern of a tuple, or the only one
                pv = re.findall(r'trust_runtime::value::types::Value::(\w+)', pats)
                if not pv:
                    continue
                cons = sorted({r.split('::')[-1] for r in arm['refs'] if r.startswith('trust_runtime::value::types::Value::')})
                if not cons:
                    continue
                slots = set(pv) if not pats.startswith('tuple(') else {pv[-1]}
                r1.saw()
                extra = [c for c in cons if c not in slots and not (len(slots) > 1)]
                key = '%s|%s' % (what.replace(' ', '-'), '+'.join(sorted(slots)))
                if len(slots) == 1 and set(cons) - slots:
                    r1.bad(key, '%s builds %s for a slot holding %s: a value written from outside the program changes the type the variable holds' % (what, cons, sorted(slots)), loc='%s:%d' % (fx.fns[fid]['file'], arm['line']))
                elif len(slots) > 1 and (set(cons) - slots):
                    r1.bad(key, '%s builds %s in an arm for slots %s' % (what, cons, sorted(slots)), loc='%s:%d' % (fx.fns[fid]['file'], arm['line']))
                else:
                    r1.ok(key)
    # (a3) the default value of a subrange is its lower limit (IEC 61131-3: the initial value of a subrange is the first
    # limit): the Subrange arm of the default table computes from `lower`, never from a default of the base type, which
    # can lie outside the range
    dv = [k for k in fx.fns if re.search(r'trust_runtime::value::defaults::default_value_for_type$', k)]
    if not dv:
        r1.bad('anchor-missing|default_value_for_type', 'default table not found')
    else:
        found = False
        for m in fx.matches_in(dv[0]):
            for arm in m['arms']:
                if any('Type::Subrange' in p for p in arm['pats']):
                    found = True
                    r1.saw()
                    rec_calls = [r for r in arm['refs'] if re.search(r'default_value_for_type(_id)?$', r)]
                    clamps = [r for r in arm['refs'] if re.search(r'::(max|min|clamp)$', r)]
                    if rec_calls or clamps:
                        r1.bad('default|Subrange', 'the default of a subrange is derived from %s instead of being its lower limit: for a range that does not contain the base type\'s default (e.g. INT(-10..-5)) the variable starts outside its range' % (
                            (rec_calls + clamps)[0].split('::')[-1]), loc='%s:%d' % (fx.fns[dv[0]]['file'], arm['line']))
                    else:
                        r1.ok('default|Subrange')
        if not found:
            r1.bad('default|Subrange', 'the default table has no Subrange arm (shape not recognised)', loc='%s:%d' % (fx.fns[dv[0]]['file'], fx.fns[dv[0]]['line']))
    # (b) TypeId-keyed tables: coerce_from_io and the helpers of coerce_value_to_type
    for fid in sorted(k for k in fx.fns if re.search(r'^trust_runtime::(io::coerce_from_io|harness::coerce::coerce_\w+)$', k)):
        fname = fid.split('::')[-1]
        ms = fx.matches_in(fid)
        outer = [m for m in ms if m['sty'].endswith('TypeId')]
        inner = sorted([m for m in ms if m['sty'].endswith('value::types::Value')], key=lambda m: m['line'])
        for om in outer:
            arms = sorted(om['arms'], key=lambda a: a['line'])
            for i, arm in enumerate(arms):
                tys = [p.split('::')[-1] for p in arm['pats'] if 'TypeId::' in p]
                if not tys:
                    continue
                hi = arms[i + 1]['line'] if i + 1 < len(arms) else 10 ** 9
                cons = {r.split('::')[-1] for r in arm['refs'] if r.startswith('trust_runtime::value::types::Value::')}
                for im in inner:
                    if arm['line'] <= im['line'] < hi:
                        for ia in im['arms']:
                            cons |= {r.split('::')[-1] for r in ia['refs'] if r.startswith('trust_runtime::value::types::Value::')}
                if fname == 'coerce_value_to_type':
                    continue       # dispatch only; its helper tables are checked below
                r1.saw()
                if not cons:
                    # no constructor in the arm: the input value is passed through. Then the value patterns the arm accepts
                    # decide the class that is stored: they must be exactly the class of the declared type, per type
                    accepted = set()
                    for im in inner:
                        if arm['line'] <= im['line'] < hi:
                            for ia in im['arms']:
                                if any(r.endswith('RuntimeError::TypeMismatch') or r == 'core::result::Result::Err' for r in ia['refs']):
                                    continue
                                accepted |= set(re.findall(r'value::types::Value::(\w+)', ' '.join(ia['pats'])))
                    if accepted:
                        for t in tys:
                            if {norm(c) for c in accepted} != {norm(t)}:
                                r1.bad('%s|%s' % (fname, t), '%s passes a value of class %s through for declared type %s: the variable then holds a value of another type' % (fname, sorted(accepted), t), loc='%s:%d' % (fx.fns[fid]['file'], arm['line']))
                            else:
                                r1.ok('%s|%s' % (fname, t))
                    continue
                for t in tys:
                    if len(tys) > 1 and fname != 'coerce_from_io':
                        continue   # grouped fallthrough arm (`_ => LInt`) handled by the dispatcher's grouping
                    if cons and {norm(c) for c in cons} != {norm(t)}:
                        r1.bad('%s|%s' % (fname, t), '%s builds %s for declared type %s' % (fname, sorted(cons), t), loc='%s:%d' % (fx.fns[fid]['file'], arm['line']))
                    elif cons:
                        r1.ok('%s|%s' % (fname, t))
    # (c) every elementary type has an explicit arm in coerce_value_to_type (the wildcard passes values through untouched)
    cv = 'trust_runtime::harness::coerce::coerce_value_to_type'
    if cv in fx.fns:
        have = set()
        for m in fx.matches_in(cv):
            if m['sty'].endswith('TypeId'):
                for arm in m['arms']:
                    for p in arm['pats']:
                        if 'TypeId::' in p:
                            have.add(p.split('::')[-1])
        need = {'BOOL', 'SINT', 'INT', 'DINT', 'LINT', 'USINT', 'UINT', 'UDINT', 'ULINT', 'REAL', 'LREAL', 'BYTE', 'WORD', 'DWORD', 'LWORD',
                'TIME', 'LTIME', 'DATE', 'LDATE', 'TOD', 'LTOD', 'DT', 'LDT', 'STRING', 'WSTRING', 'CHAR', 'WCHAR'}
        r1.saw(len(have))
        miss = sorted(need - have)
        if miss:
            r1.bad('explicit-arms', 'coerce_value_to_type has no explicit arm for %s: initialisers of that type fall to the pass-through wildcard and keep whatever tag the expression produced' % miss,
                   loc='%s:%d' % (fx.fns[cv]['file'], fx.fns[cv]['line']))
        else:
            r1.ok('explicit-arms', detail='%d elementary types' % len(have))
    else:
        r1.bad('anchor-missing|coerce_value_to_type', 'function not found')


def _r2(ctx):
    fx = ctx.fx
    r2 = ctx.rule('C03.R2', 'stores that have a coercion still pass through it (FOR control, typed I/O latching, initialisers)', floor=4)
    # FOR control writes: every write_lvalue in the FOR arm region gets its value from coerce_loop_value
    es = fx.fns.get('trust_runtime::eval::stmt::exec_stmt')
    if es is None:
        r2.bad('anchor-missing|exec_stmt', 'exec_stmt not found')
    else:
        fn = F(es)
        r2.saw(len(fn.g))
        clv = set(fn.blocks_calling(lambda n: n.endswith('eval::stmt::coerce_loop_value')))
        n_ok = 0
        n_bad = 0
        for b, nm, t in fn.calls(lambda n: re.search(r'eval::expr::(lvalue::)?write_lvalue$|write_lvalue$', n) is not None):
            oo = operand_origins(fn, t['a'][-1])
            calls = {o[2] for o in oo if o[0] == 'call'}
            # the FOR control writes are those whose target is LValue::Name(control.clone())
            to = operand_origins(fn, t['a'][1])
            is_control = any(o[0] == 'agg' and o[1].endswith('LValue::Name') for o in to) and any(o[0] == 'field' and o[1].endswith('Stmt.control') or (o[0] == 'call' and o[2].endswith('clone')) for o in to)
            if not any(o[0] == 'agg' and o[1].endswith('LValue::Name') for o in to):
                continue
            if any(c.endswith('coerce_loop_value') for c in calls):
                n_ok += 1
            elif any(re.search(r'eval_expr$', c) for c in calls) or any(o[0] == 'call' for o in oo):
                # a Name-target write with an evaluated value that is not the Assign arm: the FOR control variable
                if any(c.endswith('int_value') or 'loop' in c for c in calls) or not calls:
                    n_bad += 1
        if n_ok >= 2 and n_bad == 0:
            r2.ok('for-control', detail='%d control-variable writes take coerce_loop_value results' % n_ok)
        else:
            r2.bad('for-control', 'a FOR control-variable write no longer goes through coerce_loop_value (%d coerced, %d not)' % (n_ok, n_bad), loc=fn.loc(0))
    for fid, callee, what in (('trust_runtime::io::IoInterface::read_inputs', 'coerce_from_io', 'io-latch'),
                              ('trust_runtime::instance::init_var_defaults', 'coerce_value_to_declared_type', 'instance-initialisers'),
                              ('trust_runtime::harness::config::apply_globals', 'coerce_value_to_declared_type', 'global-initialisers'),
                              ('trust_runtime::harness::config::apply_config_inits', 'coerce_value_to_declared_type', 'config-initialisers')):
        rec = fx.fns.get(fid)
        if rec is None:
            r2.bad('anchor-missing|%s' % what, '%s not found' % fid)
            continue
        fn = F(rec)
        r2.saw(len(fn.g))
        if fn.calls(lambda n: n.endswith(callee)):
            r2.ok(what)
        else:
            r2.bad(what, '%s no longer calls %s before storing' % (fid.split('::')[-1], callee), loc=fn.loc(0))
    # coerce_value_to_type knows the elementary types only and hands every other type back untouched (F43): a value that
    # is stored into a *declared* variable has to go through the registry-aware coercer. The partial one may be called
    # from that wrapper, from the typed-literal lowering (`INT#5`: the prefix names the type) and from the debug adapter
    # (reviewed: it types against the evaluated type of an expression, and the runtime re-types on the drain, F30)
    PARTIAL = 'trust_runtime::harness::coerce::coerce_value_to_type'
    MAY = re.compile(r'^trust_runtime::harness::coerce::|^trust_runtime::harness::lower::expr::lower_literal$|^trust_debug::adapter::variables::')
    n_pc = 0
    for k in sorted(fx.fns):
        if '::tests::' in k:
            continue
        f2 = F(fx.fns[k])
        cs = f2.calls(lambda n: n == PARTIAL)
        if not cs:
            continue
        n_pc += len(cs)
        owner = k.split('::{closure')[0]
        if MAY.search(owner):
            r2.ok('partial-coercer|%s' % owner.split('::')[-1], loc=f2.loc(cs[0][0]))
        else:
            r2.bad('partial-coercer|%s' % owner[len('trust_runtime::'):] if owner.startswith('trust_runtime::') else 'partial-coercer|%s' % owner,
                   '%s types a value with coerce_value_to_type, which passes every non-elementary type (alias, subrange, enum, struct, array, FB instance) through untouched: a value for a variable of such a type is stored with whatever tag it came with' % owner.split('::')[-1], loc=f2.loc(cs[0][0]))
    r2.saw(n_pc)
    # instance handles (Value::Instance(id), typed I/O bindings, access paths) stay valid or dangle, but never come to
    # name another instance: the id counter only moves forward. Every write of it is an increment of its own value.
    from ..dep import deps as _deps2
    n_w = 0
    for k in sorted(fx.fns):
        if not k.startswith('trust_runtime::') or '::tests::' in k:
            continue
        f2 = F(fx.fns[k])
        for b in f2.g:
            for st in f2.bbs[b]['s']:
                if st[0] != 'A' or not place_fields(st[1]) or not place_fields(st[1])[-1].endswith('VariableStorage.next_instance_id'):
                    continue
                n_w += 1
                short = k[len('trust_runtime::'):]
                d = _deps2(f2, st[2][1]) if st[2][0] == 'use' else None
                selfdep = d is not None and any(f.endswith('VariableStorage.next_instance_id') for f in d.fields)
                inc = False
                if st[2][0] == 'use' and st[2][1][0] in ('c', 'm'):
                    for (db, dk, drv) in f2.defs.get(st[2][1][1][0], []):
                        if dk == 'A' and drv[0] == 'bin' and drv[1] in ('Add', 'AddWithOverflow'):
                            inc = True
                        if dk == 'C' and re.search(r'::(checked_add|saturating_add|wrapping_add)$', f2.call_name(db) or ''):
                            inc = True
                    # (a, overflow) tuple of AddWithOverflow: the value is field .0 of it
                    if not inc and st[2][1][1][1]:
                        for (db, dk, drv) in f2.defs.get(st[2][1][1][0], []):
                            if dk == 'A' and drv[0] == 'bin' and drv[1] in ('AddWithOverflow',):
                                inc = True
                if selfdep and inc:
                    r2.ok('instance-id-forward|%s' % short, loc=f2.loc(b))
                elif k.endswith('VariableStorage::new') or k.endswith('Default>::default'):
                    r2.ok('instance-id-forward|%s' % short, loc=f2.loc(b), detail='constructor')
                else:
                    r2.bad('instance-id-forward|%s' % short, '%s sets the instance id counter to something other than its own value plus one: ids are handed out again, and a handle that survived (a retained FB-typed global, a typed I/O binding, an access path) then names a different instance - values of one declared type are written into the slots of another' % short.split('::')[-1], loc=f2.loc(b))
    r2.saw(max(n_w, 1))
