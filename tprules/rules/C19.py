"""C19 — web IDE file API stays inside the project and never loses a concurrent edit.

Decided statically over `trust_runtime::web::ide`: (R1) every mutating fs call is guarded by
the write_enabled true edge and by an editor-session gate; (R2) the path argument of every fs
call flows from the workspace resolver (or from the workspace root joined with walk-vetted
names); (R3) directory walks and the resolver never follow symlinks out of the project;
(R4) hidden/parent/absolute components are rejected by the normaliser, every resolver call is
fed by a normaliser, collectors skip dot-names; (R5) in apply_source the version check, the
write and the version bump happen under one lock region in that order.
"""
import re

from ..cfg import F, op_base, op_local, place_fields
from ..gates import (call_result_edges, guarded, unguarded_path, param_flag_edges, enum_variant_edges,
                     compare_seeds, test_edges)
from ..prov import origins, operand_origins
from ..dep import deps

CRATES = ['trust_runtime']
NODEFAULT_OK = True
EXPLANATION = __doc__

M = 'trust_runtime::web::ide::'
W = M + 'WebIdeState::'
FS_MUT = re.compile(r'^std::fs::(write|create_dir|create_dir_all|remove_file|remove_dir|remove_dir_all|rename|copy|'
                    r'set_permissions|hard_link|soft_link)$|^std::fs::File::(create|create_new|set_len)$|'
                    r'^std::fs::OpenOptions::open$|^std::os::unix::fs::symlink$')
FS_READ = re.compile(r'^std::fs::(read_to_string|read|read_dir|read_link)$|^std::fs::File::open$')
FS_META_FOLLOW = re.compile(r'^std::path::Path::(is_dir|is_file|exists|metadata|canonicalize|read_dir|try_exists)$|^std::fs::(metadata|canonicalize)$')
FS_NOFOLLOW = re.compile(r'^std::fs::DirEntry::(file_type|metadata)$|^std::fs::symlink_metadata$|^std::path::Path::(symlink_metadata|is_symlink|read_link)$|^std::fs::FileType::is_symlink$|^std::fs::read_link$')
RESOLVERS = (W + 'resolve_workspace_path', W + 'resolve_source_path')
NORMALISERS = (M + 'normalize_workspace_path', M + 'normalize_workspace_file_path', M + 'normalize_source_path')
COLLECTORS = (M + 'collect_workspace_files', M + 'collect_source_files', M + 'collect_workspace_tree')
# operations outside the property's own list (project picker); recorded, not checked
OUT_OF_SCOPE = {W + 'browse_directory': 'project picker: browses directories to choose a project root (not one of list/open/create/write/rename/delete/search)',
                W + 'set_active_project': 'project picker', M + 'normalize_project_root': 'project picker'}
PATH_PASS = re.compile(r'Path::(parent|as_os_str|to_path_buf|as_ref)$|PathBuf::(as_path|as_ref)$|AsRef<.*>>::as_ref$|Deref>::deref$')


def _pp(n):
    return PATH_PASS.search(n) is not None


def scope_fns(fx):
    out = []
    for k, rec in fx.fns.items():
        if not k.startswith(M) or '::tests::' in k:
            continue
        out.append(k)
    return sorted(out)


def role_editor_edges(ctx, fn):
    adt = ctx.fx.adts.get(M + 'IdeRole')
    if not adt:
        return set()
    names = [v['name'] for v in adt['variants']]
    if 'Editor' not in names:
        return set()
    idx = names.index('Editor')

    def from_role(l):
        return any(o[0] == 'field' and o[1].endswith('IdeSessionEntry.role') for o in origins(fn, l))
    pos, neg = enum_variant_edges(fn, from_role, idx)
    return pos


def run(ctx):
    fx = ctx.fx
    fns = scope_fns(fx)

    # ------------------------------------------------------------------ R1
    r1 = ctx.rule('C19.R1', 'every mutating fs call in the web IDE is guarded by write_enabled and by an editor-session gate', floor=9, floor_what='mutation sites')
    for k in fns:
        if k in OUT_OF_SCOPE:
            continue
        fn = F(fx.fns[k])
        muts = fn.calls(lambda n: FS_MUT.search(n) is not None)
        if not muts:
            continue
        r1.saw(len(fn.g))
        base = k.split('::{closure')[0]
        if base != k:
            r1.bad('closure-mutation|%s' % k[len(M):], 'fs mutation inside a closure: gate dominance cannot be established here', loc=fn.loc(muts[0][0]))
            continue
        we_pos, we_neg, _ = param_flag_edges(fn, 'write_enabled')
        sess = set()
        for b, nm, t in fn.calls(lambda n: n == W + 'ensure_editor_session'):
            p, n_, _ = call_result_edges(fn, b)
            sess |= p
        sess |= role_editor_edges(ctx, fn)
        for b, nm, t in muts:
            key = '%s|%s' % (k[len(M):], nm.split('::')[-1])
            problems = []
            wit = {}
            if not we_pos:
                problems.append('function has no write_enabled test')
            elif not guarded(fn, b, we_pos):
                problems.append('reachable with write_enabled = false')
                wit['write_enabled_path_lines'] = fn.path_lines(unguarded_path(fn, b, we_pos))
            if not sess:
                problems.append('function has no editor-session gate')
            elif not guarded(fn, b, sess):
                problems.append('reachable before/without the editor-session check (ensure_editor_session Ok edge or role == Editor)')
                wit['session_path_lines'] = fn.path_lines(unguarded_path(fn, b, sess))
            if problems:
                r1.bad(key, '%s: %s' % (nm, '; '.join(problems)), loc=fn.loc(b), witness=wit)
            else:
                r1.ok(key, loc=fn.loc(b))

    # ------------------------------------------------------------------ R2 path provenance
    r2 = ctx.rule('C19.R2', 'the path argument of every fs read/mutation flows from the workspace resolver (or root-joined walk-vetted names in collectors/search)', floor=12, floor_what='fs call sites')
    cg = ctx.cg

    def path_ok(fn, operand, depth=0):
        """None if acceptable, else a description of the offending origin"""
        k = fn.id
        base = k.split('::{closure')[0]
        oo = operand_origins(fn, operand, extra_pass=_pp)
        calls = {o[2] for o in oo if o[0] == 'call'}
        if calls and calls <= set(RESOLVERS):
            return None
        if base in RESOLVERS or base in (W + 'workspace_root', M + 'closest_existing_parent'):
            return None
        if calls == {'std::path::Path::join'}:
            if base in COLLECTORS:
                return None     # walk: root.join(relative) over the collector's own parameters
            basefn = F(fx.fns[base]) if base in fx.fns else fn
            uses_collector = any(True for _ in basefn.calls(lambda n: n in COLLECTORS)) or any(
                F(fx.fns[c]).calls(lambda n: n in COLLECTORS) for c in fx.closures_of(base))
            if uses_collector:
                return None     # root.join(<name produced by the non-following, dot-skipping walk>)
            return 'Path::join of unvetted components'
        if not calls and any(o[0] == 'arg' for o in oo) and depth < 2 and '{closure' not in k:
            # helper taking the path as a parameter: every caller must pass an acceptable path
            args = sorted({o[1] for o in oo if o[0] == 'arg'})
            sites = [(a, bb) for a, bb, _ in cg.callers(k) if a in fx.fns]
            if not sites:
                return 'path parameter of a function with no analysed caller'
            for a, bb in sites:
                cf = F(fx.fns[a])
                t = cf.term(bb)
                if t['k'] != 'call' or cf.call_name(bb) != k:
                    continue
                for an in args:
                    if an - 1 < len(t['a']):
                        r = path_ok(cf, t['a'][an - 1], depth + 1)
                        if r is not None:
                            return 'via caller %s: %s' % (a[len(M):], r)
            return None
        return 'origins %s' % (sorted(calls) or sorted(map(str, oo))[:4])

    for k in fns:
        if k in OUT_OF_SCOPE or k.split('::{closure')[0] in OUT_OF_SCOPE:
            continue
        fn = F(fx.fns[k])
        sites = fn.calls(lambda n: FS_MUT.search(n) is not None or FS_READ.search(n) is not None)
        for b, nm, t in sites:
            r2.saw()
            key = '%s|%s' % (k[len(M):], nm.split('::')[-1])
            nargs = 2 if nm.endswith(('::rename', '::copy', '::hard_link')) else 1
            bad = None
            for ai in range(min(nargs, len(t['a']))):
                bad = bad or path_ok(fn, t['a'][ai])
            if bad is None:
                r2.ok(key, loc=fn.loc(b))
            else:
                r2.bad(key, 'path argument of %s does not come from resolve_workspace_path/resolve_source_path: %s' % (nm, bad), loc=fn.loc(b))

    # ------------------------------------------------------------------ R3 symlinks
    r3 = ctx.rule('C19.R3', 'directory walks never follow symlinks; the resolver checks the leaf, not only its parent', floor=3)
    for c in (M + 'collect_workspace_files', M + 'collect_workspace_tree'):
        rec = fx.fns.get(c)
        if rec is None:
            r3.bad('anchor-missing|%s' % c, 'collector not found')
            continue
        fn = F(rec)
        r3.saw(len(fn.g))
        follow = fn.calls(lambda n: FS_META_FOLLOW.search(n) is not None)
        nofollow = fn.calls(lambda n: FS_NOFOLLOW.search(n) is not None)
        rec_calls = fn.calls(lambda n: n == c)
        if follow:
            b, nm, _ = follow[0]
            r3.bad('walk-follows|%s' % c[len(M):], 'directory walk decides recursion with %s, which follows symlinks: a symlinked directory leads the walk out of the project' % nm, loc=fn.loc(b))
        elif rec_calls and not nofollow:
            r3.bad('walk-follows|%s' % c[len(M):], 'recursive walk has no non-following type test (DirEntry::file_type / symlink_metadata)', loc=fn.loc(rec_calls[0][0]))
        else:
            r3.ok('walk-follows|%s' % c[len(M):])
    rw = fx.fns.get(W + 'resolve_workspace_path')
    if rw is None:
        r3.bad('anchor-missing|resolve_workspace_path', 'resolver not found')
    else:
        fn = F(rw)
        r3.saw(len(fn.g))
        leaf_ok = False
        for b, nm, t in fn.calls(lambda n: FS_NOFOLLOW.search(n) is not None or n.endswith('::canonicalize')):
            oo = operand_origins(fn, t['a'][0], extra_pass=lambda n: re.search(r'PathBuf::as_path$|Deref>::deref$|AsRef<.*>>::as_ref$', n) is not None)
            if any(o[0] == 'call' and o[2] == 'std::path::Path::join' for o in oo) and not any(o[0] == 'call' and o[2].endswith('Path::parent') for o in oo):
                leaf_ok = True
        if leaf_ok:
            r3.ok('resolver-leaf')
        else:
            r3.bad('resolver-leaf', 'resolve_workspace_path validates only the parent directory: an existing leaf that is a symlink resolves outside the project', loc=fn.loc(0))
        sw = fn.calls(lambda n: n.endswith('Path::starts_with'))
        oks = [b for b in fn.g for s in fn.bbs[b]['s'] if s[0] == 'A' and s[1][0] == 0 and s[2][0] == 'agg' and s[2][1].endswith('Result::Ok')]
        # bypass edges for the leaf test: "the leaf does not exist" (Err/false edge of a non-following probe)
        bypass = set()
        for b, nm, t in fn.calls(lambda n: FS_NOFOLLOW.search(n) is not None):
            pos, neg, _ = call_result_edges(fn, b)
            bypass |= neg
        parent_ok = False
        leaf_ok2 = None
        for b, _, t in sw:
            pos, neg, _ = call_result_edges(fn, b)
            recv = operand_origins(fn, t['a'][0], extra_pass=lambda n: re.search(r'PathBuf::as_path$|Deref>::deref$|AsRef<.*>>::as_ref$', n) is not None)
            rc = {o[2] for o in recv if o[0] == 'call'}
            if any(c.endswith('closest_existing_parent') for c in rc):
                if oks and all(guarded(fn, ob, pos) for ob in oks):
                    parent_ok = True
            elif any(c.endswith('::canonicalize') for c in rc):
                leaf_ok2 = bool(oks) and all(guarded(fn, ob, pos | bypass) for ob in oks)
        if not sw:
            r3.bad('resolver-containment', 'resolve_workspace_path has no containment (starts_with) test', loc=fn.loc(0))
        elif parent_ok and leaf_ok2 is not False:
            r3.ok('resolver-containment', loc=fn.loc(sw[0][0]), detail='parent test strict%s' % ('; leaf test with not-exists bypass' if leaf_ok2 else ''))
        else:
            r3.bad('resolver-containment', 'resolve_workspace_path can return Ok without passing the starts_with(canonical_root) test (%s)' % ('parent' if not parent_ok else 'leaf'), loc=fn.loc(sw[0][0]))

    # the walk to the closest existing ancestor gives up (and falls back to the root, which passes the containment test
    # trivially) only when the chain of parents is exhausted: the end-of-walk test depends on Path::parent / ancestors
    # alone - not on a counter, a constant bound or a truncating adaptor
    cep = fx.fns.get(M + 'closest_existing_parent')
    r3.saw()
    if cep is None:
        r3.bad('anchor-missing|closest_existing_parent', 'closest_existing_parent not found')
    else:
        cf = F(cep)
        loops = [set(c) for c in cf.sccs() if len(c) > 1]
        probes = [b for b, nm, t in cf.calls(lambda n: re.search(r'Path::(exists|try_exists|symlink_metadata|metadata)$', n) is not None)]
        trunc = [(b, nm) for b, nm, t in cf.calls(lambda n: re.search(r'Iterator::(take|take_while|step_by|skip|skip_while|nth|map_while)$|::Take<|::TakeWhile<|::StepBy<', n) is not None)]
        badw = None
        if not loops or not probes:
            badw = (0, 'no loop over the ancestors with an existence probe was found (shape not recognised)')
        elif trunc:
            badw = (trunc[0][0], 'the ancestor walk is truncated by %s' % trunc[0][1].split('::')[-1])
        else:
            lp = next((c for c in loops if any(p_ in c for p_ in probes)), loops[0])
            for b in lp:
                t = cf.term(b)
                if t['k'] != 'switch':
                    continue
                exits = [x for x in cf.g.get(b, ()) if x not in lp]
                if not exits:
                    continue
                l = op_local(t['d'])
                if l is None:
                    continue
                d = deps(cf, ['c', [l, []]])
                cn = {c[1] for c in d.calls}
                if any(re.search(r'Path::(exists|try_exists)$', n) for n in cn) and not any(re.search(r'Path::parent$|Ancestors.*::next$', n) for n in cn):
                    continue        # the "found an existing ancestor" exit
                ints = [k for k in d.consts if re.search(r'_(usize|u8|u16|u32|u64|i32|i64)$', k) and not re.match(r'(const )?[01]_', k)]
                foreign = [n for n in cn if not re.search(r'Path::(parent|ancestors|exists|try_exists)$|Ancestors.*::next$|IntoIterator>::into_iter$|Option<.*>::(into_iter|map|and_then)$|Deref>::deref$|PathBuf::as_path$|AsRef<.*>>::as_ref$', n)]
                if ints or foreign:
                    badw = (b, 'the walk can end on a condition other than "no parent left" (%s)' % ', '.join([x.split('::')[-1] for x in foreign[:2]] + ints[:2]))
        if badw:
            r3.bad('ancestor-walk-exhaustive', 'closest_existing_parent: %s: a path whose nearest existing ancestor lies beyond the bound falls back to the project root and passes the containment test although that ancestor (a symlink out of the project, say) was never canonicalised' % badw[1], loc=cf.loc(badw[0]))
        else:
            r3.ok('ancestor-walk-exhaustive', loc=cf.loc(probes[0]))

    # ------------------------------------------------------------------ R4 normaliser / hidden entries
    r4 = ctx.rule('C19.R4', 'normaliser rejects hidden, parent, root and prefix components; every resolver call is fed by a normaliser; collectors skip dot-names', floor=8)
    nz = fx.fns.get(M + 'normalize_workspace_path')
    if nz is None:
        r4.bad('anchor-missing|normalize_workspace_path', 'normaliser not found')
    else:
        fn = F(nz)
        r4.saw(len(fn.g))
        tabs = [m for m in fx.matches_in(nz['id']) if m['sty'].startswith('std::path::Component<')]
        if not tabs:
            r4.bad('component-table', 'no match over path components found in the normaliser', loc=fn.loc(0))
        else:
            m = tabs[0]
            rejected = set()
            for arm in m['arms']:
                vs = [p.split('variant:')[1].split('(')[0].split('{')[0].split('::')[-1] for p in arm['pats'] if p.startswith('variant:')]
                pushes = any(r.endswith('::push') for r in arm['refs'])
                # the arm rejects when it builds an Err (however the error value itself is produced)
                errs = any(r == 'core::result::Result::Err' for r in arm['refs'])
                for v in vs:
                    if errs and not pushes:
                        rejected.add(v)
                if any(p == 'wild' for p in arm['pats']) and not errs:
                    r4.bad('component-table|wildcard', 'component match has a permissive wildcard arm', loc='%s:%d' % (nz['file'], arm['line']))
            # the value returned is exactly the validated components joined by "/": nothing rewrites the string after
            # the per-component checks (a later replace / case fold / trim could re-introduce separators or dots)
            okv = []
            for b in fn.g:
                for st_ in fn.bbs[b]['s']:
                    if st_[0] == 'A' and st_[1] == [0, []] and st_[2][0] == 'agg' and st_[2][1].endswith('Result::Ok') and st_[2][2]:
                        oo = operand_origins(fn, st_[2][2][0])
                        calls = sorted({o[2] for o in oo if o[0] == 'call'})
                        okv.append((b, calls))
            r4.saw()
            bad_ret = [(b, c) for b, c in okv if not (all(re.search(r'::join$|String::new$', x) for x in c) and (c or True))]
            if okv and not bad_ret:
                r4.ok('output-is-validated-join', detail='%d Ok returns' % len(okv))
            else:
                r4.bad('output-is-validated-join', 'the normaliser returns a string that was transformed after the per-component validation (%s): characters that were inside one validated component can become separators, `..` or hidden segments' % (
                    ', '.join(x.split('::')[-1] for x in (bad_ret[0][1] if bad_ret else [])) or 'no Ok return found'), loc=fn.loc(bad_ret[0][0]) if bad_ret else fn.loc(0))
            need = {'ParentDir', 'RootDir', 'Prefix'}
            if need <= rejected:
                r4.ok('component-table', detail=sorted(rejected))
            else:
                r4.bad('component-table', 'normaliser no longer rejects path components %s' % sorted(need - rejected), loc='%s:%d' % (nz['file'], m['line']))
        sw = fn.calls(lambda n: n.endswith('::starts_with'))
        pushes = fn.calls(lambda n: re.search(r'Vec(::)?<.*>::push$', n) is not None)
        okdot = False
        for b, nm, t in sw:
            pos, neg, _ = call_result_edges(fn, b)
            if pushes and neg and all(guarded(fn, pb, neg) for pb, _, _ in pushes):
                okdot = True
        if okdot:
            r4.ok('dot-components')
        else:
            r4.bad('dot-components', 'a path component is accepted without passing the starts_with(\'.\') rejection', loc=fn.loc(pushes[0][0]) if pushes else fn.loc(0))
    for k in fns:
        if k in OUT_OF_SCOPE:
            continue
        fn = F(fx.fns[k])
        for b, nm, t in fn.calls(lambda n: n in RESOLVERS):
            if k in RESOLVERS:
                continue
            r4.saw()
            oo = operand_origins(fn, t['a'][1], extra_pass=lambda n: re.search(r'String::as_str$|Deref>::deref$', n) is not None)
            calls = {o[2] for o in oo if o[0] == 'call'}
            key = 'resolver-input|%s' % k[len(M):]
            if calls and calls <= set(NORMALISERS):
                r4.ok(key, loc=fn.loc(b))
            elif k == W + 'rename_symbol':
                r4.excepted(key, 'rename_symbol resolves paths taken from the analysis context, whose keys come from collect_source_files (walk-vetted names)', loc=fn.loc(b))
            else:
                r4.bad(key, 'resolver is called with a path that did not pass a normaliser: origins %s' % (sorted(calls) or sorted(map(str, oo))[:4]), loc=fn.loc(b))
    for c in (M + 'collect_workspace_files', M + 'collect_workspace_tree'):
        rec = fx.fns.get(c)
        if rec is None:
            continue
        fn = F(rec)
        r4.saw(len(fn.g))
        sw = fn.calls(lambda n: n.endswith('::starts_with'))
        sinks = fn.calls(lambda n: re.search(r'Vec(::)?<.*>::push$', n) is not None or n == c)
        ok = False
        for b, nm, t in sw:
            pos, neg, _ = call_result_edges(fn, b)
            if sinks and neg and all(guarded(fn, sb, neg) for sb, _, _ in sinks):
                ok = True
        if ok:
            r4.ok('collector-dot|%s' % c[len(M):])
        else:
            r4.bad('collector-dot|%s' % c[len(M):], 'collector emits or descends into entries without passing the dot-name skip', loc=fn.loc(0))

    # ------------------------------------------------------------------ R5 optimistic concurrency
    r5 = ctx.rule('C19.R5', 'apply_source: version check, write and version bump under one lock region, write only on version match', floor=4)
    rule_prefix_boundary(ctx, r5)
    ap = ctx.anchor(r5, W + 'apply_source')
    if ap is not None:
        fn = ap
        r5.saw(len(fn.g))
        writes = fn.calls(lambda n: n == 'std::fs::write')
        locks = fn.calls(lambda n: re.search(r'Mutex(::)?<.*>::lock$', n) is not None)
        if len(writes) != 1 or not locks:
            r5.bad('shape', 'expected one fs::write and a state lock in apply_source (found %d writes, %d locks)' % (len(writes), len(locks)), loc=fn.loc(0))
        else:
            wb = writes[0][0]
            lb = locks[0][0]
            exp = set(fn.local_of('expected_version'))

            def is_ver_cmp(op, a, b, bb):
                if op not in ('Eq', 'Ne'):
                    return None
                oa = operand_origins(fn, a)
                ob = operand_origins(fn, b)
                fa = any(o[0] == 'field' and o[1].endswith('IdeDocumentEntry.version') for o in oa)
                fb = any(o[0] == 'field' and o[1].endswith('IdeDocumentEntry.version') for o in ob)
                ea = any(o[0] == 'arg' and o[1] in exp for o in oa)
                eb = any(o[0] == 'arg' and o[1] in exp for o in ob)
                if (fa and eb) or (fb and ea):
                    return op == 'Eq'
                return None
            seeds = compare_seeds(fn, is_ver_cmp)
            if not seeds:
                r5.bad('version-check', 'no comparison of the stored document version with expected_version', loc=fn.loc(0))
            else:
                pos, neg, sws = test_edges(fn, seeds)
                if guarded(fn, wb, pos):
                    r5.ok('version-check', loc=fn.loc(wb))
                else:
                    r5.bad('version-check', 'fs::write is reachable without passing the version == expected_version edge (a stale writer overwrites a newer version)',
                           loc=fn.loc(wb), witness={'path_lines': fn.path_lines(unguarded_path(fn, wb, pos))})
                cmp_bbs = [fn.defs[l][0][0] for l in seeds]
                if all(fn.dominates(lb, cb) for cb in cmp_bbs):
                    r5.ok('lock-before-check', loc=fn.loc(lb))
                else:
                    r5.bad('lock-before-check', 'the version comparison is not dominated by the state lock', loc=fn.loc(cmp_bbs[0]))
                drops = [b for b in fn.g if fn.term(b)['k'] == 'drop' and 'MutexGuard' in fn.term(b)['ty']]
                for b, _, t in fn.calls(lambda n: n == 'core::mem::drop'):
                    bl = op_base(t['a'][0])
                    if bl is not None and 'MutexGuard' in fn.local_ty(bl):
                        drops.append(b)
                between = set()
                for cb in cmp_bbs:
                    between |= fn.reach_after(cb, avoid={wb})
                bad_drops = [d for d in drops if d in between and wb in fn.reach([d])]
                if bad_drops:
                    r5.bad('lock-held', 'the state lock guard can be dropped between the version check and the write', loc=fn.loc(bad_drops[0]))
                else:
                    r5.ok('lock-held')
            wpos, wneg, _ = call_result_edges(fn, wb)
            if not wpos:
                r5.bad('version-bump', 'result of fs::write is not tested', loc=fn.loc(wb))
            else:
                starts = [b for (_, b) in wpos]
                rs = fn.reach(starts)
                bump = [b for b in fn.g if b in rs and fn.assigns_field(b, lambda f: f.endswith('IdeDocumentEntry.version'))]
                ok, path = fn.must_pass_from(starts, bump, removed_edges=wneg)
                if bump and ok:
                    r5.ok('version-bump', loc=fn.loc(bump[0]))
                else:
                    r5.bad('version-bump', 'a successful write can return without bumping the document version (the next stale writer is accepted)',
                           loc=fn.loc(wb), witness={'path_lines': fn.path_lines(path)})
                cont = [b for b in fn.g if b in rs and fn.assigns_field(b, lambda f: f.endswith('IdeDocumentEntry.content'))]
                ok2, path2 = fn.must_pass_from(starts, cont, removed_edges=wneg)
                if cont and ok2:
                    r5.ok('content-sync')
                else:
                    r5.bad('content-sync', 'a successful write can return without updating the cached document content', loc=fn.loc(wb))


def rule_prefix_boundary(ctx, r5):
    """Deleting / renaming a directory touches the tracked documents *below* it: a string-prefix test on workspace keys
    must use a separator-terminated prefix (or a component-wise Path test), otherwise `lib` also matches `lib2/x.st`
    and `library.st`, whose version tracking is then dropped (the next stale writer is accepted)."""
    fx = ctx.fx
    from ..dep import deps
    n = 0
    for k in sorted(fx.fns):
        if not re.search(r'web::ide::WebIdeState::(delete_entry|rename_entry)(::\{closure#\d+\})*$', k):
            continue
        fn = F(fx.fns[k])
        for b, nm, t in fn.calls(lambda x: re.search(r'core::str::<impl str>::starts_with$', x) is not None):
            pat = t['a'][1]
            if pat[0] == 'k':
                continue            # literal pattern (e.g. a single character)
            pl = op_local(pat)
            if pl is not None and fn.local_ty(pl) in ('char',):
                continue
            n += 1
            r5.saw()
            d = deps(fn, pat)
            sep = any('/' in c for c in d.consts)
            if not sep and '{closure' in k:
                # the prefix may be captured: look at what the enclosing function put into the closure
                parent = k.rsplit('::{closure', 1)[0]
                prec = fx.fns.get(parent)
                if prec is not None:
                    pf = F(prec)
                    for pb in pf.g:
                        for pst in pf.bbs[pb]['s']:
                            if pst[0] == 'A' and pst[2][0] == 'agg' and pst[2][1] == 'closure:' + k:
                                for cap in pst[2][2]:
                                    if any('/' in c for c in deps(pf, cap).consts):
                                        sep = True
                    # a closure defined inside another closure of the same function: one more level
                    if not sep and '{closure' in parent:
                        gp = fx.fns.get(parent.rsplit('::{closure', 1)[0])
                        if gp is not None:
                            gf = F(gp)
                            for gb in gf.g:
                                for gst in gf.bbs[gb]['s']:
                                    if gst[0] == 'A' and gst[2][0] == 'agg' and gst[2][1] == 'closure:' + parent:
                                        for cap in gst[2][2]:
                                            if any('/' in c for c in deps(gf, cap).consts):
                                                sep = True
            key = 'dir-prefix-boundary|%s' % k.split('WebIdeState::')[1]
            if sep:
                r5.ok(key, loc=fn.loc(b))
            else:
                r5.bad(key, 'a string-prefix test on workspace paths uses the bare directory name as prefix (no trailing "/"): the directory `lib` also matches `lib2/main.st` and `library.st`, whose tracked version is dropped although the files stay, so a stale writer is accepted afterwards', loc=fn.loc(b))
    if n == 0:
        r5.note('no string-prefix tests in delete_entry / rename_entry (component-wise or exact matching)')


    # ------------------------------------------------------------------ R6 session expiry
    # expiry is enforced by prune_expired only (ensure_session does not compare expires_at itself): every keyed lookup in
    # the session map, and every refresh of a session's expiry, must come after it in the same function
    r6 = ctx.rule('C19.R6', 'an expired session is never looked up or refreshed: keyed access to the session map and writes of expires_at are dominated by prune_expired (or a comparison of expires_at)', floor=1, floor_what='session lookups')
    for k in sorted(fx.fns):
        if not k.startswith(M) or '::tests::' in k or k == M + 'prune_expired':
            continue
        fn = F(fx.fns[k])
        sites = []
        for b, nm, t in fn.calls(lambda n: re.search(r'Map::<.*>::(get|get_mut|contains_key|get_key_value|entry|get_full|get_index_of)$|Index<.*>>::index$|IndexMut<.*>>::index_mut$', n) is not None):
            ga = ' '.join(t['f'].get('ga') or [])
            if 'IdeSessionEntry' in ga or 'IdeSessionEntry' in nm:
                sites.append((b, 'lookup'))
        for b in fn.g:
            if fn.assigns_field(b, lambda f: f.endswith('IdeSessionEntry.expires_at')):
                sites.append((b, 'refresh'))
        if not sites:
            continue
        pr = fn.blocks_calling(lambda n: n == M + 'prune_expired')
        cmpb = []
        for b in fn.g:
            for st in fn.bbs[b]['s']:
                if st[0] == 'A' and st[2][0] == 'bin' and st[2][1] in ('Le', 'Lt', 'Ge', 'Gt'):
                    if any(f.endswith('IdeSessionEntry.expires_at') for o in (st[2][2], st[2][3]) if o[0] in ('c', 'm') for f in place_fields(o[1])):
                        cmpb.append(b)
        short = k[len(M):]
        for b, what in sites:
            r6.saw()
            key = '%s|%s' % (what, short)
            if any(fn.dominates(p_, b) or p_ == b for p_ in pr + cmpb):
                r6.ok(key, loc=fn.loc(b))
            else:
                r6.bad(key, '%s: a session is %s without expiry having been enforced first (no prune_expired before it): a session whose TTL has run out is still found and kept alive, and its token keeps authorising writes' % (short, 'looked up by token' if what == 'lookup' else 'refreshed'), loc=fn.loc(b))

    # ------------------------------------------------------------------ R7 versions never restart
    # the optimistic check compares version numbers only: a document that stops being tracked (deleted, renamed away,
    # gone from disk, project switched) and is tracked again under the same path must not start at 1 again, or a writer
    # holding a version of the old file passes the check against the new one
    r7 = ctx.rule('C19.R7', 'document versions never restart: a newly tracked document takes its first version from the retired-version table, and every removal from the document table records the version there', floor=8, floor_what='document constructions / removals')
    from ..dep import deps as _deps7
    for k in sorted(fx.fns):
        if not k.startswith(M) or '::tests::' in k:
            continue
        bodies = [k]
        fn = F(fx.fns[k])
        short = k[len(M):].split('::{closure')[0]
        # (a) constructions
        for b in fn.g:
            for st in fn.bbs[b]['s']:
                if st[0] == 'A' and st[2][0] == 'agg' and str(st[2][1]).endswith('IdeDocumentEntry') and len(st[2][2]) >= 2:
                    r7.saw()
                    vop = st[2][2][1]
                    d = _deps7(fn, vop)
                    from_table = any(c[1].endswith('IdeStateInner::first_version') for c in d.calls) or any(f.endswith('IdeStateInner.retired_versions') for f in d.fields)
                    # inside a closure (`or_insert_with(|| IdeDocumentEntry { version: first_version, .. })`) the value is a capture
                    if not from_table and '{closure' in k:
                        parent = k.rsplit('::{closure', 1)[0]
                        prec = fx.fns.get(parent)
                        if prec is not None:
                            pf = F(prec)
                            for pb in pf.g:
                                for pst in pf.bbs[pb]['s']:
                                    if pst[0] == 'A' and pst[2][0] == 'agg' and pst[2][1] == 'closure:' + k:
                                        for cap in pst[2][2]:
                                            dc = _deps7(pf, cap)
                                            if any(c[1].endswith('IdeStateInner::first_version') for c in dc.calls) or any(f.endswith('IdeStateInner.retired_versions') for f in dc.fields):
                                                from_table = True
                    key = 'first-version|%s' % short
                    if from_table:
                        r7.ok(key, loc=fn.loc(b))
                    else:
                        r7.bad(key, '%s starts tracking a document at a version that does not come from the retired-version table (a constant): after delete + create, rename-away + create or a project switch the numbering restarts, and a stale writer passes the expected_version check' % short, loc=fn.loc(b))
        # (b) removals
        for b, nm, t in fn.calls(lambda n: re.search(r'HashMap(::)?<.*>::(remove|remove_entry|clear|drain|retain|extract_if)$', n) is not None):
            ga = ' '.join(t['f'].get('ga') or [])
            if 'IdeDocumentEntry' not in ga and 'IdeDocumentEntry' not in nm:
                continue
            r7.saw()
            key = 'retire|%s' % short
            from ..cg import field_reads as _fr7, field_writes as _fw7
            touches = 'IdeStateInner.retired_versions' in repr(_fr7(fx.fns[k])) or 'IdeStateInner.retired_versions' in repr(_fw7(fx.fns[k]))
            if touches:
                r7.ok(key, loc=fn.loc(b))
            else:
                r7.bad(key, '%s removes entries from the document table without recording their versions in the retired-version table' % short, loc=fn.loc(b))
