"""C20 — resource threads: consistent shared globals; pause/resume/stop always work.

Decided statically: (R1) shared globals are copied in, cycled and copied back inside one lock
region, in that order, and nothing else touches the shared map; (R2) a paused resource runs
no cycle and the pause flag follows the Pause/Resume commands only; (R3) every repeating
path of the resource loops re-tests the stop flag, the start gate re-tests it with a timed
wait, stop() stores before it wakes; (R4) the stop branch saves retained data once, marks
Stopped and leaves; every other exit marks Faulted; (R6) condvar wake protocol of the
manual clock and the start gate; (R7) the two sibling resource loops make the same calls.
Interleavings themselves (fairness, lost wake-ups under arbitrary schedules) are not decided.
"""
import re
import collections

from ..cfg import F, op_local, place_fields
from ..gates import call_result_edges, guarded, unguarded_path, test_edges, enum_variant_edges
from ..prov import origins, operand_origins

CRATES = ['trust_runtime']
NODEFAULT_OK = True
EXPLANATION = __doc__

S = 'trust_runtime::scheduler::'
SG = S + 'SharedGlobals::'
EXEC = 'trust_runtime::runtime::cycle::<impl trust_runtime::runtime::core::Runtime>::execute_cycle'
LOOPS = (S + 'run_resource_loop', S + 'run_resource_loop_with_shared')
ATOMIC_LOAD = re.compile(r'atomic::Atomic\w*(::<[^>]*>)?::load$')
ATOMIC_STORE = re.compile(r'atomic::Atomic\w*(::<[^>]*>)?::store$')
WAIT = re.compile(r'Condvar::wait(_while|_timeout|_timeout_while|_timeout_ms)?$')
NOTIFY = re.compile(r'Condvar::notify_(all|one)$')


def _closure_args(fn, t):
    out = []
    for a in t['a']:
        for o in operand_origins(fn, a):
            if o[0] == 'agg' and o[1].startswith('closure:'):
                out.append(o[1][8:])
    return out


def run(ctx):
    fx, cg = ctx.fx, ctx.cg
    _r1(ctx)
    _r2_r3_r4(ctx)
    _r6(ctx)
    _r7(ctx)


def _r1(ctx):
    fx, cg = ctx.fx, ctx.cg
    r1 = ctx.rule('C20.R1', 'shared globals: copy-in, cycle and copy-back happen inside one lock region in that order; nothing else reaches the shared map', floor=5)
    into, frm, wl = SG + 'sync_into_locked', SG + 'sync_from_locked', SG + 'with_lock'
    rule_sync_complete(ctx, r1)
    for f in (into, frm, wl):
        if f not in fx.fns:
            r1.bad('anchor-missing|%s' % f.split('::')[-1], 'function not found')
            return
    # closures passed to with_lock
    lock_closures = {}
    for a, bb, _ in cg.callers(wl):
        cf = F(fx.fns[a])
        for c in _closure_args(cf, cf.term(bb)):
            lock_closures[c] = (a, bb)
    r1.note('%d closures run under SharedGlobals::with_lock' % len(lock_closures))
    users = sorted({a for a, _, _ in cg.callers(into)} | {a for a, _, _ in cg.callers(frm)})
    for u in users:
        fn = F(fx.fns[u])
        r1.saw(len(fn.g))
        key = u.split('::', 2)[-1]
        if u not in lock_closures:
            r1.bad('lock-region|%s' % key, 'sync_into_locked/sync_from_locked is called outside a closure passed to SharedGlobals::with_lock (the shared map is touched without the lock or outside the region)', loc=fn.loc(0))
            continue
        ib = fn.blocks_calling(lambda n: n == into)
        fb = fn.blocks_calling(lambda n: n == frm)
        eb = fn.blocks_calling(lambda n: n == EXEC)
        probs = []
        if len(ib) != 1 or len(fb) != 1 or len(eb) != 1:
            probs.append('expected exactly one copy-in, one cycle and one copy-back in the lock region (found %d/%d/%d): a write-back without a preceding copy-in rolls back other resources\' updates' % (len(ib), len(eb), len(fb)))
        else:
            pos_i, _, _ = call_result_edges(fn, ib[0])
            if not (pos_i and guarded(fn, eb[0], pos_i)):
                probs.append('the cycle can run without a successful copy-in')
            if fb[0] not in fn.reach_after(eb[0]) or eb[0] in fn.reach_after(fb[0]):
                probs.append('copy-back does not follow the cycle')
            ok, path = fn.must_pass_from(list(fn.g.get(eb[0], [])), set(fb))
            if not ok:
                probs.append('a path after the cycle leaves the lock region without copying back')
            if not fn.dominates(ib[0], fb[0]):
                probs.append('copy-back is not dominated by copy-in')
        if probs:
            r1.bad('lock-region|%s' % key, '; '.join(probs), loc=fn.loc(0))
        else:
            r1.ok('lock-region|%s' % key, loc=fn.loc(ib[0]))
    # with_lock: lock before the call, guard alive across it
    fn = F(fx.fns[wl])
    r1.saw(len(fn.g))
    lk = fn.calls(lambda n: re.search(r'Mutex::<.*>::lock$', n) is not None)
    call = fn.calls(lambda n: re.search(r'FnOnce<.*>>::call_once$|FnOnce::call_once$', n) is not None)
    if lk and call and fn.dominates(lk[0][0], call[0][0]):
        drops = [b for b in fn.g if fn.term(b)['k'] == 'drop' and 'MutexGuard' in fn.term(b)['ty']]
        early = [d for d in drops if call[0][0] in fn.reach_after(d)]
        if early:
            r1.bad('with_lock', 'the guard can be dropped before the closure runs', loc=fn.loc(early[0]))
        else:
            r1.ok('with_lock', loc=fn.loc(lk[0][0]))
    else:
        r1.bad('with_lock', 'SharedGlobals::with_lock does not take the mutex before calling the closure', loc=fn.loc(0))
    # only from_runtime / with_lock touch SharedGlobals.inner; the field is private
    adt = fx.adts.get(S + 'SharedGlobals')
    if adt:
        vis = {f[0]: f[2] for f in adt['variants'][0]['fields']}
        if 'inner' in vis and 'Restricted' in vis['inner'] and 'scheduler' in vis['inner'] or 'inner' in vis and vis['inner'].startswith('Restricted'):
            r1.ok('inner-private')
        else:
            r1.bad('inner-private', 'SharedGlobals.inner is visible outside the scheduler module (%s)' % vis.get('inner'))
    touch = set()
    from ..cg import field_reads, field_writes
    for k, rec in fx.fns.items():
        if not k.startswith('trust_runtime::'):
            continue
        w, mb = field_writes(rec)
        r = field_reads(rec)
        if any(ch[-1].endswith('SharedGlobals.inner') for ch in (w | mb | r)):
            touch.add(k.split('::{closure')[0])
    allowed = {wl, SG + 'from_runtime'}
    derived = {m for im in fx.impls if im.get('derived') for _, m in im['methods']}
    bad = sorted(t for t in touch if t not in allowed and t not in derived)
    r1.saw(len(touch))
    if bad:
        r1.bad('inner-access', 'SharedGlobals.inner is accessed outside with_lock/from_runtime: %s' % bad)
    else:
        r1.ok('inner-access', detail=sorted(touch))


def _cycle_sites(fx, fn):
    """blocks in a resource loop that run a cycle: execute_cycle directly or a with_lock call whose closure does"""
    out = []
    for b, nm, t in fn.calls():
        if nm == EXEC:
            out.append(b)
        elif nm == SG + 'with_lock':
            for c in _closure_args(fn, t):
                if c in fx.fns and F(fx.fns[c]).calls(lambda n: n == EXEC):
                    out.append(b)
    return out


def _r2_r3_r4(ctx):
    fx, cg = ctx.fx, ctx.cg
    r2 = ctx.rule('C20.R2', 'a paused resource executes no cycle; the pause flag is set only with state Paused and cleared only with state Running', floor=4)
    r3 = ctx.rule('C20.R3', 'every repeating path of the resource loops re-tests the stop flag; the start gate polls it with a timed wait; stop() stores before it wakes', floor=5)
    r4 = ctx.rule('C20.R4', 'stop branch: save retained data once, mark Stopped, leave; every loop exit marks Stopped or Faulted', floor=4)
    for lid in LOOPS:
        rec = fx.fns.get(lid)
        short = lid.split('::')[-1]
        if rec is None:
            r2.bad('anchor-missing|%s' % short, 'resource loop not found')
            continue
        fn = F(rec)
        r2.saw(len(fn.g)); r3.saw(len(fn.g)); r4.saw(len(fn.g))
        cyc = _cycle_sites(fx, fn)
        if len(cyc) != 1:
            r2.bad('cycle-site|%s' % short, 'expected exactly one cycle site in the loop, found %d' % len(cyc), loc=fn.loc(0))
            continue
        cb = cyc[0]
        # ---- R2
        # the pause flag: a boolean local assigned both constants, whose false edge guards the cycle
        # (the source name `paused` is only a tie-breaker)
        flagc = []
        for l_, dl_ in fn.defs.items():
            if fn.local_ty(l_) != 'bool':
                continue
            vals = {('true' in rv_[1][2]) for (b_, k_, rv_) in dl_ if k_ == 'A' and rv_[0] == 'use' and rv_[1][0] == 'k'}
            if vals == {True, False}:
                p_, n_, _ = test_edges(fn, {l_: ('bool', True)})
                if n_ and guarded(fn, cb, n_):
                    flagc.append(l_)
        named_ = fn.local_of('paused')
        pl = sorted(flagc, key=lambda l: (l not in named_, l)) or named_
        if not pl:
            r2.bad('paused-flag|%s' % short, 'no `paused` flag found', loc=fn.loc(0))
        else:
            pos, neg, _ = test_edges(fn, {pl[0]: ('bool', True)})
            if neg and guarded(fn, cb, neg):
                r2.ok('paused-no-cycle|%s' % short, loc=fn.loc(cb))
            else:
                r2.bad('paused-no-cycle|%s' % short, 'the cycle is reachable while paused is true', loc=fn.loc(cb),
                       witness={'path_lines': fn.path_lines(unguarded_path(fn, cb, neg))[-10:]})
            writes = []
            for (b, k, rv) in fn.defs.get(pl[0], []):
                if k == 'A' and rv[0] == 'use' and rv[1][0] == 'k':
                    writes.append((b, 'true' in rv[1][2]))
                else:
                    writes.append((b, None))
            okw = True
            for b, val in writes:
                if b == 0 or fn.dominates(b, cb) and val is False and not fn.in_cycle(b):
                    continue        # initialisation
                states = [s[2][1].split('::')[-1] for s in fn.bbs[b]['s'] if s[0] == 'A' and s[2][0] == 'agg' and 'ResourceState::' in s[2][1]]
                nxt = fn.reach([b])
                if val is True and 'Paused' not in states and not _state_assigned_near(fn, b, 'Paused'):
                    okw = False
                if val is False and 'Running' not in states and not _state_assigned_near(fn, b, 'Running'):
                    okw = False
                if val is None:
                    okw = False
            if okw and len(writes) >= 3:
                r2.ok('paused-writes|%s' % short, detail='%d writes' % len(writes))
            else:
                r2.bad('paused-writes|%s' % short, 'the pause flag is written outside the Pause (-> state Paused) / Resume (-> state Running) command arms', loc=fn.loc(writes[0][0]) if writes else fn.loc(0))
        # ---- R3
        loads = []
        for b, nm, t in fn.calls(lambda n: ATOMIC_LOAD.search(n) is not None):
            oo = operand_origins(fn, t['a'][0])
            if any(o[0] == 'arg' for o in oo):
                loads.append(b)
        if not loads:
            r3.bad('stop-test|%s' % short, 'the loop never loads the stop flag', loc=fn.loc(0))
        else:
            repeaters = [cb] + fn.blocks_calling(lambda n: n.endswith('Clock::sleep_until') or n.endswith('::sleep_until') or n.endswith('thread::yield_now'))
            still = fn.sccs(removed_nodes=set(loads))
            bad = [b for b in repeaters if any(b in c for c in still)]
            if bad:
                r3.bad('stop-test|%s' % short, 'a repeating path through the cycle/sleep avoids the stop test: stop() would not terminate the thread', loc=fn.loc(bad[0]))
            else:
                r3.ok('stop-test|%s' % short, loc=fn.loc(loads[0]), detail='%d repeating sites' % len(repeaters))
            # ---- R4 stop branch
            spos = set()
            for lb in loads:
                p, n_, _ = call_result_edges(fn, lb)
                spos |= p
            region = set()
            for (a, b) in spos:
                region |= fn.reach([b])
            # blocks only on the stop branch: not reachable once the stop-true edges are removed
            only = {b for b in region if b not in fn.reach([0], removed_edges=spos)}
            saves = [b for b in only if (fn.call_name(b) or '').endswith('::save_retain_store')]
            stopped = [b for b in only if any(s[0] == 'A' and s[2][0] == 'agg' and s[2][1].endswith('ResourceState::Stopped') for s in fn.bbs[b]['s'])]
            loops_back = any(b in only for b in loads) or any(cb in fn.reach([b]) for b in only)
            all_saves = fn.blocks_calling(lambda n: n.endswith('::save_retain_store'))
            if len(saves) == 1 and not fn.in_cycle(saves[0]) and stopped and not loops_back:
                r4.ok('stop-branch|%s' % short, loc=fn.loc(saves[0]))
            else:
                r4.bad('stop-branch|%s' % short, 'the stop branch does not save retained data exactly once, mark Stopped and leave the loop (saves on branch: %d, Stopped assigned: %s, re-enters loop: %s)' % (len(saves), bool(stopped), loops_back), loc=fn.loc(loads[0]))
            # save must reach the Stopped mark on every path (must-pass)
            if saves and stopped:
                ok, path = fn.must_pass_from(list(fn.g.get(saves[0], [])), set(stopped))
                if not ok:
                    r4.bad('stop-branch-order|%s' % short, 'after saving, a path leaves without marking the resource Stopped', loc=fn.loc(saves[0]))
        # every Return of the loop function passes a Stopped/Faulted assignment
        marks = [b for b in fn.g if any(s[0] == 'A' and s[2][0] == 'agg' and (s[2][1].endswith('ResourceState::Stopped') or s[2][1].endswith('ResourceState::Faulted')) for s in fn.bbs[b]['s'])]
        ok, path = fn.must_pass_from([0], set(marks))
        if ok:
            r4.ok('exit-marks|%s' % short, detail='%d marking sites' % len(marks))
        else:
            r4.bad('exit-marks|%s' % short, 'the loop thread can end without marking the resource Stopped or Faulted (callers keep seeing Running)', loc=fn.loc(0), witness={'path_lines': fn.path_lines(path)[-10:]})
    # start gate
    wo = fx.fns.get(S + 'StartGate::wait_open')
    if wo is None:
        r3.bad('anchor-missing|wait_open', 'StartGate::wait_open not found')
    else:
        fn = F(wo)
        r3.saw(len(fn.g))
        waits = fn.calls(lambda n: WAIT.search(n) is not None)
        loads = fn.blocks_calling(lambda n: ATOMIC_LOAD.search(n) is not None)
        if waits and loads:
            wb = waits[0][0]
            timed = 'timeout' in waits[0][1]
            comp = [c for c in fn.sccs() if wb in c]
            if comp and any(l in comp[0] for l in loads) and timed:
                r3.ok('start-gate-polls-stop', loc=fn.loc(wb))
            else:
                r3.bad('start-gate-polls-stop', 'the start gate wait does not re-test the stop flag with a timed wait: stop() before open() would hang the thread', loc=fn.loc(wb))
        else:
            r3.bad('start-gate-polls-stop', 'StartGate::wait_open shape not recognised', loc=fn.loc(0))
    # stop(): store then wake
    for k in sorted(fx.fns):
        if re.search(r'scheduler::Resource(Handle|Control)::<.*>::stop$|scheduler::Resource(Handle|Control)<.*>::stop$', k):
            fn = F(fx.fns[k])
            r3.saw(len(fn.g))
            st = fn.blocks_calling(lambda n: ATOMIC_STORE.search(n) is not None)
            wk = fn.blocks_calling(lambda n: n.endswith('Clock::wake') or n.endswith('::wake'))
            key = 'stop-store-then-wake|%s' % re.sub(r'::<.*>', '', k.split('scheduler::')[-1])
            if st and wk and fn.dominates(st[0], wk[0]):
                r3.ok(key, loc=fn.loc(st[0]))
            else:
                r3.bad(key, 'stop() does not store the flag before waking the sleeper (the woken thread can re-sleep without seeing it)', loc=fn.loc(0))


def _state_assigned_near(fn, b, state):
    """the state is assigned in a block reachable from b before any switch (same straight-line region)"""
    seen = set()
    cur = b
    for _ in range(12):
        if cur in seen:
            break
        seen.add(cur)
        if any(s[0] == 'A' and s[2][0] == 'agg' and s[2][1].endswith('ResourceState::' + state) for s in fn.bbs[cur]['s']):
            return True
        nx = fn.g.get(cur, [])
        if len(nx) != 1:
            break
        cur = nx[0]
    return False


def _r6(ctx):
    fx = ctx.fx
    r6 = ctx.rule('C20.R6', 'condvar wake protocol: waits sit in a loop that re-reads the waited state; wakers write that state under the same mutex before notify_all; a waiter never consumes a broadcast flag', floor=4)
    from ..cg import field_writes
    # waiters and the fields they read in their loop condition
    for k in sorted(fx.fns):
        if not (k.startswith(S) or k.startswith('<trust_runtime::scheduler::')):
            continue
        fn = F(fx.fns[k])
        waits = fn.calls(lambda n: WAIT.search(n) is not None)
        if not waits:
            continue
        r6.saw(len(fn.g))
        key = re.sub(r'::<.*?>', '', k.replace('trust_runtime::scheduler::', ''))
        for wb, nm, t in waits:
            comp = [c for c in fn.sccs() if wb in c]
            if not comp:
                r6.bad('wait-in-loop|%s' % key, 'Condvar::wait is not inside a loop that re-tests its condition (spurious wake-ups and missed notifications break it)', loc=fn.loc(wb))
                continue
            r6.ok('wait-in-loop|%s' % key, loc=fn.loc(wb))
        w, mb = field_writes(fx.fns[k])
        consumed = [ch[-1] for ch in w if ch[-1].endswith('ManualClockState.interrupted')]
        if consumed:
            r6.bad('waiter-consumes-broadcast|%s' % key, 'a waiter writes ManualClockState.interrupted: wake() is a broadcast (notify_all) and a sleeper that clears the flag strands the other sleepers on the same clock', loc=fn.loc(waits[0][0]))
        elif 'ManualClock' in k:
            r6.ok('waiter-consumes-broadcast|%s' % key)
    # wakers: write then notify, both after lock
    for k, field in ((S + 'ManualClock::interrupt', 'ManualClockState.interrupted'), (S + 'StartGate::open', None),
                     (S + 'ManualClock::advance', 'ManualClockState.now'), (S + 'ManualClock::set_time', 'ManualClockState.now')):
        rec = fx.fns.get(k)
        if rec is None:
            r6.bad('anchor-missing|%s' % k.split('::')[-1], 'waker not found')
            continue
        fn = F(rec)
        r6.saw(len(fn.g))
        lk = fn.blocks_calling(lambda n: re.search(r'Mutex::<.*>::lock$', n) is not None)
        nt = fn.blocks_calling(lambda n: NOTIFY.search(n) is not None)
        nt_all = fn.calls(lambda n: n.endswith('notify_all'))
        wr = [b for b in fn.g if (field and fn.assigns_field(b, lambda f: f.endswith(field))) or (not field and any(s[0] == 'A' and s[1][1] and s[1][1][0] == '*' and 'bool' in fn.local_ty(s[1][0]) for s in fn.bbs[b]['s']))]
        key = 'waker|%s' % k[len(S):]
        if lk and nt and wr and fn.dominates(lk[0], wr[0]) and all(nb in fn.reach([wr[0]]) for nb in nt) and nt_all:
            r6.ok(key, loc=fn.loc(nt[0]))
        else:
            r6.bad(key, 'waker does not (lock, write the waited state, notify_all) in that order', loc=fn.loc(0))


def _r7(ctx):
    fx = ctx.fx
    r7 = ctx.rule('C20.R7', 'sibling agreement: run_resource_loop and run_resource_loop_with_shared make the same local calls except for the lock region', floor=1)
    sigs = {}
    for lid in LOOPS:
        rec = fx.fns.get(lid)
        if rec is None:
            r7.bad('anchor-missing|%s' % lid.split('::')[-1], 'resource loop not found')
            return
        fn = F(rec)
        r7.saw(len(fn.g))
        c = collections.Counter()
        for b, nm, t in fn.calls():
            if nm.startswith('trust_runtime::') or nm.startswith('<trust_runtime'):
                short = re.sub(r'::<.*?>', '', nm)
                c[short] += 1
        # state marks
        for b in fn.g:
            for s in fn.bbs[b]['s']:
                if s[0] == 'A' and s[2][0] == 'agg' and 'ResourceState::' in s[2][1]:
                    c['mark:' + s[2][1].split('::')[-1]] += 1
        sigs[lid] = c
    a, b = sigs[LOOPS[0]], sigs[LOOPS[1]]
    diff = {}
    for k in set(a) | set(b):
        if a.get(k, 0) != b.get(k, 0):
            diff[k] = (a.get(k, 0), b.get(k, 0))
    allowed = {EXEC: (1, 0), SG + 'with_lock': (0, 1)}
    allowed = {re.sub(r'::<.*?>', '', k): v for k, v in allowed.items()}
    unexpected = {k: v for k, v in diff.items() if allowed.get(k) != v}
    if unexpected:
        r7.bad('sibling-calls', 'the two resource loops differ beyond the lock region: %s (plain, shared) — an edit applied to one copy only' % dict(sorted(unexpected.items())), loc=F(fx.fns[LOOPS[1]]).loc(0))
    else:
        r7.ok('sibling-calls', detail='%d distinct local callees compared' % len(set(a) | set(b)))


def rule_sync_complete(ctx, r1):
    """The copy-in and the write-back move *every* shared name, unconditionally: each iteration over SharedGlobals.names
    passes the store (a value-dependent skip makes one resource's cycle lose another's update or publish half a set)."""
    fx = ctx.fx
    for name, store in (('sync_into_locked', r'VariableStorage::set_global$'), ('sync_from_locked', r'IndexMap::<K, V, S>::insert$|::insert$')):
        rec = fx.fns.get(SG + name)
        r1.saw()
        if rec is None:
            r1.bad('anchor-missing|%s' % name, '%s not found' % name)
            continue
        fn = F(rec)
        stores = set(fn.blocks_calling(lambda n: re.search(store, n) is not None))
        loops = [set(c) for c in fn.sccs() if len(c) > 1]
        hs = {b for c in loops for b in c if re.search(r'::next$', fn.call_name(b) or '')}
        key = 'moves-every-name|%s' % name
        if not stores or not hs:
            r1.bad(key, '%s no longer stores every shared name in a loop over the name list (shape not recognised)' % name, loc=fn.loc(0))
            continue
        skipping = [c for c in fn.sccs(removed_nodes=stores) if len(c) > 1 and set(c) & hs]
        if skipping:
            r1.bad(key, '%s can skip a shared name (an iteration finishes without the store): a value-dependent write-back drops updates when a variable returns to a value this resource held before, and the shared set becomes half-updated' % name, loc=fn.loc(min(set(skipping[0]) & hs)))
        else:
            r1.ok(key, loc=fn.loc(min(stores)))
