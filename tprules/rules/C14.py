"""C14 — language server keeps the same document text as the editor.

Decided statically: (R1) LSP columns and lengths are UTF-16 code units: column accumulators
advance by char::len_utf16, no Position.character / token length is built from a byte offset
or a char count; (R2) the editor-text copy (Document.content) and the analysed text
(project source text) are written together, under one lock region, only by the sync
functions, and indexing re-checks is_open inside that region; (R3) incremental changes are
applied only at offsets returned by position_to_offset behind the start <= end <= len guard.
The change-sequence semantics and char-boundary safety of the slices are not decided.
"""
import re

from ..cfg import F, op_local, place_fields
from ..gates import call_result_edges, guarded, unguarded_path, compare_seeds, test_edges
from ..prov import origins, operand_origins

CRATES = ['trust_lsp_bin']
NODEFAULT_OK = False
EXPLANATION = __doc__

L = 'trust_lsp_bin::'
DOCS = L + 'state::documents::'
BYTE_ROOTS = re.compile(r'str>::find$|<impl str>::(find|rfind|len|match_indices)$|String::len$|text_size::.*TextSize|TextRange::(start|end|len)$|Iterator::count$|::chars$|::char_indices$|::position$')
UTF16_ROOTS = re.compile(r'lsp_utils::(offset_to_line_col|offset_to_position)$|::utf16_column$|::len_utf16$|::encode_utf16$')


def _char_origin_problem(fn, operand):
    """None if acceptable, else the offending root"""
    oo = operand_origins(fn, operand, extra_pass=lambda n: re.search(r'Iterator::count$|Option::<.*>::map$|::unwrap_or$', n) is not None)
    calls = {o[2] for o in oo if o[0] == 'call'}
    if any(UTF16_ROOTS.search(c) for c in calls):
        return None
    bad = [c for c in calls if BYTE_ROOTS.search(c)]
    if bad:
        return bad[0]
    return None


def run(ctx):
    _run_main(ctx)
    rule_r4(ctx)


def _run_main(ctx):
    fx, cg = ctx.fx, ctx.cg

    # ------------------------------------------------------------------ R1
    r1 = ctx.rule('C14.R1', 'LSP columns and lengths count UTF-16 code units (len_utf16 / encode_utf16), never bytes or chars', floor=8)
    n_acc = 0
    for k in sorted(fx.fns):
        if not k.startswith(L):
            continue
        fn = F(fx.fns[k])
        iters = fn.calls(lambda n: re.search(r'<impl str>::(chars|char_indices)$', n) is not None)
        if not iters:
            continue
        # column accumulators: u32/usize locals that are reset to 0 inside a loop and incremented there
        sccs = fn.sccs()
        for l, dl in fn.defs.items():
            if fn.local_ty(l) not in ('u32', 'usize') or len(dl) < 3:
                continue
            resets = [b for (b, kd, rv) in dl if kd == 'A' and rv[0] == 'use' and rv[1][0] == 'k' and re.match(r'(const )?0_(u32|usize)$', rv[1][2])]
            incs = [(b, rv) for (b, kd, rv) in dl if kd == 'A' and rv[0] == 'use' and rv[1][0] in ('c', 'm') and any(b in c for c in sccs)]
            if not resets or not incs:
                continue
            names = [n for n, pls in fn.names.items() if any(not pl[1] and pl[0] == l for pl in pls)]
            if not any(n in ('col', 'column', 'character', 'utf16_col', 'col16') for n in names):
                continue
            n_acc += 1
            r1.saw(len(incs))
            short = k[len(L):]
            ok = True
            for b, rv in incs:
                oo = operand_origins(fn, rv[1])
                adds = [o for o in oo if o[0] == 'op' and o[1] in ('Add', 'AddWithOverflow')]
                if not adds:
                    continue
                # the added amount: find the bin statement and look at its second operand
                amount_ok = False
                for (db, dk, drv) in fn.defs.get(rv[1][1][0], []):
                    if dk == 'A' and drv[0] == 'bin' and drv[1] in ('Add', 'AddWithOverflow'):
                        ao = operand_origins(fn, drv[3]) | operand_origins(fn, drv[2])
                        if any(o[0] == 'call' and o[2].endswith('len_utf16') for o in ao):
                            amount_ok = True
                if not amount_ok:
                    ok = False
                    r1.bad('column-advance|%s' % short, 'the column counter `%s` advances by a fixed amount per char instead of char::len_utf16(): positions on lines with astral-plane characters resolve to the wrong offset' % names[0], loc=fn.loc(b))
            if ok:
                r1.ok('column-advance|%s' % short, loc=fn.loc(incs[0][0]))
    # vacuity guard, stated as a necessary condition instead of a loop shape: a conversion between byte offsets and LSP
    # columns has to count UTF-16 code units somewhere (directly or in a callee of the crate)
    for conv in ('handlers::lsp_utils::offset_to_line_col', 'handlers::lsp_utils::position_to_offset'):
        rec = fx.fns.get(L + conv)
        if rec is None:
            r1.bad('anchor-missing|%s' % conv.split('::')[-1], 'position conversion %s not found' % conv)
            continue
        seen_f, st, aware = set(), [L + conv], False
        while st and not aware:
            x = st.pop()
            if x in seen_f or x not in fx.fns:
                continue
            seen_f.add(x)
            for b_, nm_, t_ in F(fx.fns[x]).calls():
                if nm_.endswith('len_utf16') or nm_.endswith('encode_utf16'):
                    aware = True
                elif nm_.startswith(L):
                    st.append(nm_)
            st.extend(fx.closures_of(x))
        r1.saw()
        if aware:
            r1.ok('utf16-aware|%s' % conv.split('::')[-1])
        else:
            r1.bad('utf16-aware|%s' % conv.split('::')[-1], '%s no longer counts UTF-16 code units (no len_utf16 / encode_utf16 on its paths): columns are characters or bytes' % conv.split('::')[-1], loc='%s:%d' % (rec['file'], rec['line']))
    # Position constructions
    for k in sorted(fx.fns):
        if not k.startswith(L) or '::tests::' in k:
            continue
        fn = F(fx.fns[k])
        short = k[len(L):]
        sites = []
        for b, nm, t in fn.calls(lambda n: n.endswith('lsp_types::Position::new')):
            sites.append((b, t['a'][1]))
        for b in fn.g:
            for s in fn.bbs[b]['s']:
                if s[0] == 'A' and s[2][0] == 'agg' and re.search(r'lsp_types::(\w+::)*Position::Position$', s[2][1]) is not None and len(s[2][2]) == 2:
                    sites.append((b, s[2][2][1]))
                if s[0] == 'A' and s[2][0] == 'agg' and re.search(r'lsp_types::(\w+::)*SemanticToken::SemanticToken$', s[2][1]) is not None:
                    # fields: delta_line, delta_start, length, token_type, modifiers
                    ops = s[2][2]
                    if len(ops) >= 3:
                        r1.saw()
                        lo = operand_origins(fn, ops[2], extra_pass=lambda n: re.search(r'Iterator::count$|Option::<.*>::(map|unwrap_or_else|unwrap_or)$', n) is not None)
                        calls = {o[2] for o in lo if o[0] == 'call'}
                        # the count may be taken inside a closure handed to Option::map: `text.get(a..b).map(|t| t.encode_utf16().count())`
                        via_closure = False
                        for cb, cnm, ct in fn.calls(lambda n: re.search(r'Option::<.*>::(map|map_or|map_or_else|and_then)$', n) is not None):
                            for a_ in ct['a']:
                                for o in operand_origins(fn, a_):
                                    if o[0] == 'agg' and o[1].startswith('closure:') and o[1][8:] in fx.fns:
                                        if F(fx.fns[o[1][8:]]).calls(lambda n: n.endswith('encode_utf16') or n.endswith('len_utf16')):
                                            # the mapped value flows into the length
                                            if ct['d'][0] in _backward(fn, ops[2]):
                                                via_closure = True
                        if via_closure or any(c.endswith('encode_utf16') or c.endswith('len_utf16') for c in calls):
                            r1.ok('token-length|%s' % short, loc=fn.loc(b))
                        else:
                            r1.bad('token-length|%s' % short, 'semantic token length is not counted in UTF-16 code units (origins %s)' % sorted(c.split('::')[-1] for c in calls)[:4], loc=fn.loc(b))
        for b, op in sites:
            r1.saw()
            prob = _char_origin_problem(fn, op)
            if prob:
                r1.bad('position-character|%s' % short, 'Position.character is built from %s (a byte offset or char count), not from UTF-16 code units' % prob.split('::')[-1], loc=fn.loc(b))
            else:
                r1.ok('position-character|%s' % short, loc=fn.loc(b))

    # unit mixing: a UTF-16 quantity (Position.character, rangeLength) must not be compared or combined with a byte quantity
    n_mix = 0
    for k in sorted(fx.fns):
        if not k.startswith(L) or '::tests::' in k:
            continue
        fn = F(fx.fns[k])
        short = k[len(L):]
        uses_units = False
        for l, dl in fn.defs.items():
            for (b, kd, rv) in dl:
                if kd != 'A' or rv[0] != 'bin' or rv[1] not in ('Eq', 'Ne', 'Lt', 'Le', 'Gt', 'Ge', 'Sub', 'SubWithOverflow', 'Add', 'AddWithOverflow'):
                    continue
                oa, oc = operand_origins(fn, rv[2], through_ops=True), operand_origins(fn, rv[3], through_ops=True)

                def unit(os):
                    u16 = any(o[0] == 'field' and (o[1].endswith('Position.character') or o[1].endswith('TextDocumentContentChangeEvent.range_length')) for o in os) or \
                        any(o[0] == 'call' and (o[2].endswith('len_utf16') or o[2].endswith('encode_utf16')) for o in os)
                    byt = any(o[0] == 'call' and (o[2].endswith('lsp_utils::position_to_offset') or re.search(r'<impl str>::len$|String::len$', o[2])) for o in os)
                    return u16, byt
                ua, ba = unit(oa)
                uc, bc = unit(oc)
                ba = ba or _char_count(fn, oa)
                bc = bc or _char_count(fn, oc)
                if ua or uc:
                    uses_units = True
                if (ua and bc and not uc) or (uc and ba and not ua):
                    n_mix += 1
                    r1.bad('unit-mixing|%s' % short, 'a UTF-16 quantity (Position.character / rangeLength) is compared or combined with a byte quantity (offset or str::len): the two differ for every non-ASCII character', loc=fn.loc(b))
        # min / max / clamp combine two quantities just like a comparison does
        for b, nm, t in fn.calls(lambda n: re.search(r'core::cmp::(Ord::)?(min|max|clamp)$|core::cmp::Ord>::(min|max|clamp)$', n) is not None):
            sides = [operand_origins(fn, a, through_ops=True) for a in t['a']]
            u16 = [any(o[0] == 'field' and o[1].endswith('Position.character') for o in os) or any(o[0] == 'call' and (o[2].endswith('len_utf16') or o[2].endswith('encode_utf16')) for o in os) for os in sides]
            oth = [(_char_count(fn, os) or any(o[0] == 'call' and re.search(r'<impl str>::len$|String::len$|lsp_utils::position_to_offset$', o[2]) for o in os)) and not u for os, u in zip(sides, u16)]
            if any(u16):
                uses_units = True
            if any(u16) and any(oth):
                n_mix += 1
                r1.bad('unit-mixing|%s' % short, 'a UTF-16 column is clamped (min/max) against a character count or byte length: for a line with astral-plane characters the column is cut short of positions that exist', loc=fn.loc(b))
        if uses_units:
            r1.saw()
    if n_mix == 0:
        r1.ok('unit-mixing', detail='no comparison or arithmetic mixes UTF-16 and byte quantities')

    # ------------------------------------------------------------------ R2
    r2 = ctx.rule('C14.R2', 'Document.content and the analysed project text are written together under one lock region, only by the sync functions', floor=4)
    writers = {}
    for k in sorted(fx.fns):
        if not k.startswith(L):
            continue
        fn = F(fx.fns[k])
        ws = [b for b in fn.g if fn.assigns_field(b, lambda f: f.endswith('state::Document.content'))]
        news = fn.blocks_calling(lambda n: n.endswith('state::Document::new'))
        if ws or news:
            writers[k] = (ws, news)
    allowed = {DOCS + 'open_document', DOCS + 'update_document', DOCS + 'index_document_impl'}
    r2.saw(len(writers))
    for k, (ws, news) in sorted(writers.items()):
        fn = F(fx.fns[k])
        short = k[len(L):]
        if k not in allowed:
            if k.endswith('state::Document::new') or '::tests::' in k:
                continue
            r2.bad('content-writer|%s' % short, 'Document.content is written outside open_document/update_document/index_document_impl: the editor copy can change without the analysed text', loc=fn.loc((ws or news)[0]))
            continue
        sst = fn.calls(lambda n: n.endswith('Project::set_source_text'))
        if len(sst) != 1:
            r2.bad('paired-write|%s' % short, 'expected exactly one set_source_text in %s, found %d' % (short, len(sst)), loc=fn.loc(0))
            continue
        sb = sst[0][0]
        probs = []
        for wb in ws + news:
            if not fn.dominates(sb, wb):
                probs.append('the editor copy is written on a path that did not update the analysed text (line %d)' % fn.line(wb))
        # same string: the content argument of set_source_text and the stored content derive from the same parameter
        so = {o for o in operand_origins(fn, sst[0][2]['a'][2]) if o[0] == 'arg'} if len(sst[0][2]['a']) > 2 else set()
        for wb in ws:
            for s in fn.bbs[wb]['s']:
                if s[0] == 'A' and place_fields(s[1]) and place_fields(s[1])[-1].endswith('Document.content') and s[2][0] == 'use':
                    wo = {o for o in operand_origins(fn, s[2][1]) if o[0] == 'arg'}
                    if so and wo and not (so & wo):
                        probs.append('the text given to set_source_text and the text stored in Document.content are different values')
        # one lock region: the project write guard is not dropped between set_source_text and the content write
        drops = [b for b in fn.g if fn.term(b)['k'] == 'drop' and 'RwLockWriteGuard' in fn.term(b)['ty'] and 'Project' in fn.term(b)['ty']]
        for wb in ws + news:
            between = fn.reach_after(sb, avoid={wb})
            if any(d in between and wb in fn.reach([d]) for d in drops):
                probs.append('the project lock is released between updating the analysed text and the editor copy (a concurrent open/index interleaves and leaves the two texts apart)')
                break
        # converse: after set_source_text every path writes the editor copy, or found no document entry to write
        tgt = set(ws + news)
        ok, path = fn.must_pass_from(list(fn.g.get(sb, [])), tgt)
        if not ok and k != DOCS + 'update_document':
            probs.append('the analysed text is replaced and a path returns without updating the document entry (line %s)' % (fn.path_lines(path)[-3:] if path else '?'))
        if probs:
            r2.bad('paired-write|%s' % short, '; '.join(sorted(set(probs))), loc=fn.loc(sb))
        else:
            r2.ok('paired-write|%s' % short, loc=fn.loc(sb))
    for a in sorted(allowed):
        if a not in writers:
            r2.bad('content-writer|%s' % a[len(L):], 'sync function no longer writes Document.content (anchor changed)')
    # indexing must re-check is_open inside the lock region, before the text is replaced
    idx = fx.fns.get(DOCS + 'index_document_impl')
    if idx is not None:
        fn = F(idx)
        sst = fn.blocks_calling(lambda n: n.endswith('Project::set_source_text'))
        locks = fn.calls(lambda n: re.search(r'RwLock<.*>::write$|RwLock::<.*>::write$', n) is not None)
        # is_open reads (field) whose test guards set_source_text and that happen after both write locks were taken
        reads = []
        for l, dl in fn.defs.items():
            for (b, kd, rv) in dl:
                if kd == 'A' and rv[0] == 'use' and rv[1][0] in ('c', 'm') and place_fields(rv[1][1]) and place_fields(rv[1][1])[-1].endswith('Document.is_open'):
                    reads.append(b)
        for c in fx.closures_of(DOCS + 'index_document_impl'):
            cf = F(fx.fns[c])
            if any(s[0] == 'A' and s[2][0] == 'use' and s[2][1][0] in ('c', 'm') and place_fields(s[2][1][1]) and place_fields(s[2][1][1])[-1].endswith('Document.is_open') for b in cf.g for s in cf.bbs[b]['s']):
                # closure used in docs.get(..).map(|doc| doc.is_open): the call site block of Option::map with this closure
                for b, nm, t in fn.calls(lambda n: re.search(r'Option::<.*>::(map|is_some_and|map_or)$', n) is not None):
                    if any(o[0] == 'agg' and o[1] == 'closure:' + c for a_ in t['a'] for o in operand_origins(fn, a_)):
                        reads.append(b)
        wl = [b for b, _, _ in locks]
        inside = [rb for rb in reads if wl and all(fn.dominates(w, rb) for w in wl[:2]) and sst and fn.dominates(rb, sst[0])]
        r2.saw(len(reads))
        if inside and len(wl) >= 2:
            r2.ok('index-rechecks-open', loc=fn.loc(inside[0]))
        else:
            r2.bad('index-rechecks-open', 'index_document_impl replaces the analysed text before re-checking is_open under the write locks: indexing that races with did_open overwrites the text of a document the editor owns', loc=fn.loc(sst[0]) if sst else fn.loc(0))

    # ------------------------------------------------------------------ R3
    r3 = ctx.rule('C14.R3', 'incremental changes are applied only at offsets from position_to_offset behind the start <= end <= len guard', floor=3)
    ac = fx.fns.get(L + 'handlers::sync::apply_content_changes')
    if ac is None:
        r3.bad('anchor-missing|apply_content_changes', 'function not found')
    else:
        fn = F(ac)
        r3.saw(len(fn.g))
        idx = fn.calls(lambda n: re.search(r'Index<.*>::index$', n) is not None)
        p2o = fn.calls(lambda n: n.endswith('lsp_utils::position_to_offset'))
        if len(p2o) < 2 or not idx:
            r3.bad('shape', 'expected two position_to_offset calls and slice operations in apply_content_changes', loc=fn.loc(0))
        else:
            # every slice bound derives from position_to_offset
            okb = True
            for b, nm, t in idx:
                oo = operand_origins(fn, t['a'][1])
                comp = set()
                for (db, dk, rv) in fn.defs.get(t['a'][1][1][0], []) if t['a'][1][0] in ('c', 'm') else []:
                    if dk == 'A' and rv[0] == 'agg':
                        for o in rv[2]:
                            comp |= operand_origins(fn, o)
                calls = {o[2] for o in (oo | comp) if o[0] == 'call'}
                if not any(c.endswith('position_to_offset') for c in calls):
                    okb = False
            if okb:
                r3.ok('slice-bounds-from-positions', detail='%d slices' % len(idx))
            else:
                r3.bad('slice-bounds-from-positions', 'a slice of the document text uses a bound that does not come from position_to_offset', loc=fn.loc(idx[0][0]))
            # None results propagate (the `?`): both calls' Some edges guard the slices
            allpos = []
            for b, nm, t in p2o:
                pos, neg, _ = call_result_edges(fn, b)
                allpos.append(pos)
            if all(p and all(guarded(fn, ib, p) for ib, _, _ in idx) for p in allpos):
                r3.ok('unresolvable-position-rejected')
            else:
                r3.bad('unresolvable-position-rejected', 'a change whose position cannot be resolved is applied anyway', loc=fn.loc(p2o[0][0]))
            # guard start > end || end > len

            def pred(op, a, c, bb):
                if op not in ('Gt', 'Ge', 'Lt', 'Le'):
                    return None
                oa = {o[2] for o in operand_origins(fn, a) if o[0] == 'call'}
                oc = {o[2] for o in operand_origins(fn, c) if o[0] == 'call'}
                if any(x.endswith('position_to_offset') for x in oa) and any(x.endswith('String::len') or x.endswith('::len') for x in oc):
                    return op in ('Lt', 'Le')
                return None
            seeds = compare_seeds(fn, pred)
            pos, neg, _ = test_edges(fn, seeds) if seeds else (set(), set(), [])
            if pos and all(guarded(fn, ib, pos) for ib, _, _ in idx):
                r3.ok('end-within-text')
            else:
                r3.bad('end-within-text', 'the text is sliced without the end <= len check (an out-of-range change panics the server or desynchronises the text)', loc=fn.loc(idx[0][0]))
    # the update path stores exactly what apply_content_changes returned
    dc = [k for k in fx.fns if k.startswith(L + 'handlers::sync::did_change')]
    found = False
    for k in dc:
        fn = F(fx.fns[k])
        up = fn.calls(lambda n: n.endswith('ServerState::update_document') or n.endswith('documents::update_document'))
        for b, nm, t in up:
            oo = operand_origins(fn, t['a'][-1])
            if any(o[0] == 'call' and o[2].endswith('apply_content_changes') for o in oo):
                found = True
    if found:
        r3.ok('did_change-stores-applied-text')
    elif dc:
        r3.bad('did_change-stores-applied-text', 'did_change does not store the text produced by apply_content_changes', loc=F(fx.fns[dc[0]]).loc(0))


def _backward(fn, operand, limit=60):
    """locals in the backward slice of an operand through copies, casts and pass-through adaptor calls"""
    seen = set()
    st = [operand[1][0]] if operand[0] in ('c', 'm') else []
    while st and len(seen) < limit:
        l = st.pop()
        if l in seen:
            continue
        seen.add(l)
        for (b, k, pl) in fn.defs.get(l, []):
            if k == 'A':
                rv = pl
                for o in ([rv[1]] if rv[0] == 'use' else [rv[2]] if rv[0] == 'cast' else []):
                    if o[0] in ('c', 'm'):
                        st.append(o[1][0])
            elif k == 'C':
                for a in pl['a'][:1]:
                    if a[0] in ('c', 'm'):
                        st.append(a[1][0])
    return seen



def rule_r4(ctx):
    """Text synchronisation notifications are applied in arrival order and before the next message is looked at: the
    server's didOpen / didChange / didClose entry points run their handler inline (awaited in the notification's own
    future), never in a spawned task."""
    fx = ctx.fx
    r4 = ctx.rule('C14.R4', 'didOpen / didChange / didClose apply the edit inline: the entry point calls the sync handler directly and spawns nothing', floor=3, floor_what='sync entry points')
    for name in ('did_open', 'did_change', 'did_close'):
        ids = [k for k in fx.fns if re.search(r'as tower_lsp::LanguageServer>::%s::\{closure#0\}$' % name, k)]
        if not ids:
            r4.bad('anchor-missing|%s' % name, 'LanguageServer::%s entry point not found' % name)
            continue
        fn = F(fx.fns[ids[0]])
        r4.saw()
        direct = fn.calls(lambda n: re.search(r'handlers::(sync::)?%s$' % name, n) is not None)
        spawns = fn.calls(lambda n: re.search(r'tokio::(task::)?(spawn|spawn_blocking|spawn_local)\b|::spawn$|::spawn_blocking$|JoinSet<.*>::spawn', n) is not None)
        key = 'inline|%s' % name
        if direct and not spawns:
            r4.ok(key, loc=fn.loc(direct[0][0]))
        elif spawns:
            r4.bad(key, 'the %s entry point hands its work to a spawned task: the edit is no longer applied before the next message is dispatched, so a request right behind it is answered for the old text and two changes can be applied out of order (the stored text then diverges from the editor for good)' % name, loc=fn.loc(spawns[0][0]))
        else:
            r4.bad(key, 'the %s entry point no longer calls the sync handler directly (shape not recognised)' % name, loc=fn.loc(0))


def _char_count(fn, os):
    """the origin set contains a count of `chars()` / `char_indices()` (characters, not UTF-16 units)"""
    for o in os:
        if o[0] == 'call' and re.search(r'Iterator>::count$|Iterator::count$', o[2]):
            t = fn.term(o[1]) if isinstance(o[1], int) else None
            if t and t['k'] == 'call' and t['a']:
                ro = operand_origins(fn, t['a'][0])
                if any(x[0] == 'call' and re.search(r'<impl str>::(chars|char_indices)$', x[2]) for x in ro) and not any(x[0] == 'call' and x[2].endswith('encode_utf16') for x in ro):
                    return True
    return False
