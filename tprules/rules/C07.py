"""C07 — process image: inputs latched once per cycle, outputs published once at the end.

Decided statically: (R1) who may call the driver and image I/O entry points; (R2) in
execute_cycle the input latch dominates every consumer of storage (scheduling and program
code), the output publication is passed on every path to Ok and follows all program code,
neither sits in a loop, and inside each of them the driver call is once per driver;
(R3) no path from a fault record reaches output publication; (R4) the image codec is
little-endian on both sides with agreeing spans per size and read-modify-write bit access;
(R5) the image coercion tables are mutually inverse and agree with the size table.
"""
import re
import collections

from ..cfg import F
from ..gates import call_result_edges, guarded, unguarded_path

CRATES = ['trust_runtime']
NODEFAULT_OK = True
EXPLANATION = __doc__

RTI = '<impl trust_runtime::runtime::core::Runtime>::'
CY = 'trust_runtime::runtime::cycle::' + RTI
EXEC = CY + 'execute_cycle'
READ_IN = CY + 'read_cycle_inputs'
WRITE_OUT = CY + 'write_cycle_outputs'
CONSUMERS = (CY + 'collect_ready_tasks', CY + 'execute_task', CY + 'execute_background_programs')
PROGRAM_CALLS = (CY + 'execute_task', CY + 'execute_background_programs')
DRV_READ = 'trust_runtime::io::IoDriver::read_inputs'
DRV_WRITE = 'trust_runtime::io::IoDriver::write_outputs'
IF_READ = 'trust_runtime::io::IoInterface::read_inputs'
IF_WRITE = 'trust_runtime::io::IoInterface::write_outputs'
SAFE = 'trust_runtime::runtime::io_subsystem::IoSubsystem::apply_safe_state'


def _impl_methods(fx, trait_method):
    out = set()
    for im in fx.impls:
        for t, m in im['methods']:
            if t == trait_method:
                out.add(m)
    return out


def run(ctx):
    fx, cg = ctx.fx, ctx.cg

    # ------------------------------------------------------------------ R1 who may call
    r1 = ctx.rule('C07.R1', 'driver read/write and image latch/publish entry points are called only from the cycle I/O functions (and composite drivers)', floor=4)
    rd_impls = _impl_methods(fx, DRV_READ)
    wr_impls = _impl_methods(fx, DRV_WRITE)
    r1.note('%d IoDriver impls' % len(rd_impls))

    def callers_of(targets):
        out = set()
        for tname in targets:
            for a, bb, _ in cg.callers(tname):
                out.add(a)
        return out
    # driver read
    allowed_rd = {READ_IN} | rd_impls
    cs = callers_of({DRV_READ} | rd_impls)
    r1.saw(len(cs))
    bad = sorted(c for c in cs if c.split('::{closure')[0] not in allowed_rd)
    if bad:
        r1.bad('who-calls|driver-read', 'IoDriver::read_inputs is called outside read_cycle_inputs / composite drivers: %s' % bad, loc=F(fx.fns[bad[0]]).loc(0) if bad[0] in fx.fns else None)
    elif READ_IN in cs:
        r1.ok('who-calls|driver-read', detail=sorted(cs))
    else:
        r1.bad('who-calls|driver-read', 'read_cycle_inputs no longer calls IoDriver::read_inputs')
    allowed_wr = {WRITE_OUT, SAFE} | wr_impls
    cs = callers_of({DRV_WRITE} | wr_impls)
    r1.saw(len(cs))
    bad = sorted(c for c in cs if c.split('::{closure')[0] not in allowed_wr)
    if bad:
        r1.bad('who-calls|driver-write', 'IoDriver::write_outputs is called outside write_cycle_outputs / apply_safe_state / composite drivers: %s' % bad, loc=F(fx.fns[bad[0]]).loc(0) if bad[0] in fx.fns else None)
    elif WRITE_OUT in cs:
        r1.ok('who-calls|driver-write', detail=sorted(cs))
    else:
        r1.bad('who-calls|driver-write', 'write_cycle_outputs no longer calls IoDriver::write_outputs')
    for tgt, allowed, nm in ((IF_READ, {READ_IN}, 'image-latch'), (IF_WRITE, {WRITE_OUT}, 'image-publish')):
        cs = callers_of({tgt})
        r1.saw(len(cs))
        # harness helpers drive the image directly for tests/simulation: listed
        extra = {c for c in cs if c.startswith('trust_runtime::harness::')}
        bad = sorted(c for c in cs if c.split('::{closure')[0] not in allowed and c not in extra)
        if bad:
            r1.bad('who-calls|%s' % nm, '%s is called outside %s: %s' % (tgt, sorted(allowed), bad))
        elif not (cs & allowed):
            r1.bad('who-calls|%s' % nm, '%s is no longer called from %s' % (tgt, sorted(allowed)))
        else:
            r1.ok('who-calls|%s' % nm, detail=sorted(cs))
    # the two cycle I/O functions are called only from execute_cycle
    for tgt in (READ_IN, WRITE_OUT):
        cs = callers_of({tgt})
        bad = sorted(c for c in cs if c != EXEC)
        r1.saw(len(cs))
        if bad:
            r1.bad('who-calls|%s' % tgt.split('::')[-1], '%s is called from outside execute_cycle: %s' % (tgt.split('::')[-1], bad))
        else:
            r1.ok('who-calls|%s' % tgt.split('::')[-1])

    # ------------------------------------------------------------------ R2 order and once
    r2 = ctx.rule('C07.R2', 'input latch before every consumer, output publication after all program code and on every path to Ok, each once per cycle and once per driver', floor=6)
    ex = ctx.anchor(r2, EXEC)
    if ex is not None:
        fn = ex
        r2.saw(len(fn.g))
        rb = fn.blocks_calling(lambda n: n == READ_IN)
        wb = fn.blocks_calling(lambda n: n == WRITE_OUT)
        cons = fn.calls(lambda n: n in CONSUMERS)
        progs = fn.blocks_calling(lambda n: n in PROGRAM_CALLS)
        if len(rb) != 1 or len(wb) != 1:
            r2.bad('once|sites', 'expected exactly one call each of read_cycle_inputs and write_cycle_outputs in execute_cycle (found %d / %d)' % (len(rb), len(wb)), loc=fn.loc(0))
        else:
            rb, wb = rb[0], wb[0]
            pos_r, neg_r, _ = call_result_edges(fn, rb)
            for b, nm, t in cons:
                short = nm.split('::')[-1]
                if pos_r and guarded(fn, b, pos_r):
                    r2.ok('latch-before|%s' % short, loc=fn.loc(b))
                else:
                    r2.bad('latch-before|%s' % short, '%s can run before (or without) a successful input latch: it reads storage that read_cycle_inputs has not refreshed for this cycle' % short,
                           loc=fn.loc(b), witness={'path_lines': fn.path_lines(unguarded_path(fn, b, pos_r))})
            if len({nm for _, nm, _ in cons}) < 3:
                r2.bad('latch-before|consumers', 'expected collect_ready_tasks, execute_task and execute_background_programs in execute_cycle', loc=fn.loc(0))
            if fn.in_cycle(rb):
                r2.bad('once|latch', 'read_cycle_inputs is inside a loop', loc=fn.loc(rb))
            else:
                r2.ok('once|latch', loc=fn.loc(rb))
            if fn.in_cycle(wb):
                r2.bad('once|publish', 'write_cycle_outputs is inside a loop', loc=fn.loc(wb))
            else:
                r2.ok('once|publish', loc=fn.loc(wb))
            # no program code after publication
            after = fn.reach_after(wb)
            late = [b for b in progs if b in after]
            if late:
                r2.bad('publish-last', 'program code can run after the outputs were published', loc=fn.loc(late[0]))
            else:
                r2.ok('publish-last', loc=fn.loc(wb))
            # every Ok return passed the publication's Ok edge
            pos_w, neg_w, _ = call_result_edges(fn, wb)
            oks = [b for b in fn.g for s in fn.bbs[b]['s'] if s[0] == 'A' and s[1][0] == 0 and s[2][0] == 'agg' and s[2][1].endswith('Result::Ok')]
            if oks and pos_w and all(guarded(fn, b, pos_w) for b in oks):
                r2.ok('publish-on-ok', loc=fn.loc(wb))
            else:
                r2.bad('publish-on-ok', 'execute_cycle can return Ok without a successful write_cycle_outputs', loc=fn.loc(oks[0]) if oks else fn.loc(0))
    # once per driver inside the two functions
    for fid, callee, what in ((READ_IN, DRV_READ, 'read'), (WRITE_OUT, DRV_WRITE, 'write'), (SAFE, DRV_WRITE, 'safe-write')):
        rec = fx.fns.get(fid)
        if rec is None:
            r2.bad('anchor-missing|%s' % fid, 'function not found')
            continue
        fn = F(rec)
        r2.saw(len(fn.g))
        cs = fn.blocks_calling(lambda n: n == callee or n in _impl_methods(fx, callee))
        if len(cs) != 1:
            r2.bad('per-driver|%s' % what, 'expected one driver %s call site in %s, found %d' % (what, fid.split('::')[-1], len(cs)), loc=fn.loc(0))
            continue
        cb = cs[0]
        comps = [c for c in fn.sccs() if cb in c]
        if len(comps) != 1:
            r2.bad('per-driver|%s' % what, 'the driver call is not inside the loop over the drivers', loc=fn.loc(cb))
            continue
        comp = comps[0]
        nexts = [b for b in comp if (fn.call_name(b) or '').endswith('::next')]
        still = fn.sccs(removed_nodes=set(nexts))
        if not nexts:
            r2.bad('per-driver|%s' % what, 'loop around the driver call does not iterate the driver collection', loc=fn.loc(cb))
        elif any(cb in c for c in still):
            r2.bad('per-driver|%s' % what, 'the driver call can repeat within one iteration over the drivers', loc=fn.loc(cb))
        else:
            r2.ok('per-driver|%s' % what, loc=fn.loc(cb))
    # order inside write_cycle_outputs: image publish (IoInterface::write_outputs) dominates the driver loop
    rec = fx.fns.get(WRITE_OUT)
    if rec is not None:
        fn = F(rec)
        ib = fn.blocks_calling(lambda n: n == IF_WRITE)
        db = fn.blocks_calling(lambda n: n == DRV_WRITE)
        if ib and db and fn.dominates(ib[0], db[0]):
            r2.ok('encode-before-deliver', loc=fn.loc(ib[0]))
        else:
            r2.bad('encode-before-deliver', 'drivers can receive the output image before the output-bound variables were encoded into it', loc=fn.loc(db[0]) if db else fn.loc(0))
    rec = fx.fns.get(READ_IN)
    if rec is not None:
        fn = F(rec)
        ib = fn.blocks_calling(lambda n: n == IF_READ)
        db = fn.blocks_calling(lambda n: n == DRV_READ)
        if ib and db and ib[0] in fn.reach_after(db[0]) and db[0] not in fn.reach_after(ib[0]):
            r2.ok('drivers-before-decode', loc=fn.loc(ib[0]))
        else:
            r2.bad('drivers-before-decode', 'input-bound variables are decoded before every driver delivered its inputs', loc=fn.loc(ib[0]) if ib else fn.loc(0))

    # ------------------------------------------------------------------ R3
    r3 = ctx.rule('C07.R3', 'a faulted cycle publishes no program-computed outputs: no path from a fault record to write_cycle_outputs', floor=4, floor_what='fault record sites')
    if ex is not None:
        fn = ex
        recs = fn.blocks_calling(lambda n: n.endswith(RTI + 'record_fault'))
        wbs = set(fn.blocks_calling(lambda n: n == WRITE_OUT))
        # a fault record sits on the error edge of some fallible call; what follows it is the error world of that
        # call: its success edges are not followed (the cycle CFG is path-insensitive otherwise)
        tested = []
        for cb, nm, t in fn.calls(lambda n: n in fx.fns):
            p_, n_, _ = call_result_edges(fn, cb)
            if p_ and n_:
                tested.append((cb, p_, n_))
        for b in recs:
            r3.saw()
            cut = set()
            for cb, p_, n_ in tested:
                if guarded(fn, b, n_):
                    cut |= p_
            if wbs & fn.reach_after(b, removed_edges=cut):
                r3.bad('fault-then-publish', 'write_cycle_outputs is reachable after record_fault', loc=fn.loc(b))
            else:
                r3.ok('fault-then-publish', loc=fn.loc(b))

    # ------------------------------------------------------------------ R4 codec
    r4 = ctx.rule('C07.R4', 'image codec is little-endian with agreeing spans per size; bit access is read-modify-write', floor=8)
    for fid in ('trust_runtime::io::IoInterface::read', 'trust_runtime::io::IoInterface::write'):
        rec = fx.fns.get(fid)
        if rec is None:
            r4.bad('anchor-missing|%s' % fid, 'function not found')
            continue
        fn = F(rec)
        r4.saw(len(fn.g))
        conv = fn.calls(lambda n: re.search(r'::(from|to)_(le|be|ne)_bytes$', n) is not None)
        for b, nm, t in conv:
            if re.search(r'_le_bytes$', nm):
                r4.ok('endian|%s|%s' % (fid.split('::')[-1], nm.split('::')[-2] + '::' + nm.split('::')[-1]), loc=fn.loc(b))
            else:
                r4.bad('endian|%s|%s' % (fid.split('::')[-1], nm.split('::')[-1]), 'process image uses %s: the image is defined little-endian' % nm, loc=fn.loc(b))
        if len(conv) < 3:
            r4.bad('endian|%s|sites' % fid.split('::')[-1], 'expected Word/DWord/LWord byte conversions, found %d' % len(conv), loc=fn.loc(0))
        # per-size arm table
        tabs = [m for m in fx.matches_in(fid) if m['sty'].endswith('io::IoSize')]
        if not tabs:
            r4.bad('span|%s' % fid.split('::')[-1], 'no match over IoSize found', loc=fn.loc(0))
            continue
        want = {'Word': ('u16', 2, 'Word'), 'DWord': ('u32', 4, 'DWord'), 'LWord': ('u64', 8, 'LWord')}
        for arm in tabs[0]['arms']:
            vs = [p.split('::')[-1] for p in arm['pats'] if p.startswith('variant:')]
            if not vs or vs[0] not in want:
                continue
            ity, n, val = want[vs[0]]
            refs = arm['refs']
            r4.saw(len(refs))
            conv_t = [re.search(r'<impl (u\d+)>::(?:from|to)_le_bytes', r).group(1) for r in refs if re.search(r'<impl (u\d+)>::(?:from|to)_le_bytes', r)]
            vals = {r.split('::')[-1] for r in refs if r.startswith('trust_runtime::value::types::Value::')}
            arms_sorted = sorted(tabs[0]['arms'], key=lambda a: a['line'])
            ai = arms_sorted.index(arm)
            hi = arms_sorted[ai + 1]['line'] if ai + 1 < len(arms_sorted) else 10 ** 9
            for im in fx.matches_in(fid):
                if im['sty'].endswith('value::types::Value') and arm['line'] <= im['line'] < hi:
                    for ia in im['arms']:
                        for p_ in ia['pats']:
                            mm = re.search(r'Value::(\w+)', p_)
                            if mm:
                                vals.add(mm.group(1))
            lits = [int(r.split(':')[-1]) for r in refs if r.startswith('lit:int:')]
            key = 'span|%s|%s' % (fid.split('::')[-1], vs[0])
            probs = []
            if conv_t != [ity]:
                probs.append('byte conversion types %s (want %s)' % (conv_t, ity))
            if val not in vals:
                probs.append('image value class %s not used' % val)
            if fid.endswith('::write') or vs[0] == 'Word':
                if not lits or max(lits) not in (n - 1, n):
                    probs.append('largest span literal %s (want %d or %d)' % (max(lits) if lits else None, n - 1, n))
            if probs:
                r4.bad(key, 'IoSize::%s arm disagrees with its %d-byte span: %s' % (vs[0], n, '; '.join(probs)), loc='%s:%d' % (rec['file'], arm['line']))
            else:
                r4.ok(key, loc='%s:%d' % (rec['file'], arm['line']))
    # bit access: write uses |= and &= on the addressed byte; read uses >> and & 1
    rec = fx.fns.get('trust_runtime::io::IoInterface::write')
    if rec is not None:
        fn = F(rec)
        rmw = collections.Counter()
        plain = 0
        from ..prov import origins as _orig
        for b in fn.g:
            for s in fn.bbs[b]['s']:
                if s[0] != 'A':
                    continue
                pl, rv = s[1], s[2]
                if pl[1] and pl[1][0] == '*' and fn.local_ty(pl[0]) in ('&mut u8',):
                    if rv[0] == 'bin' and rv[1] in ('BitOr', 'BitAnd') and rv[2][0] in ('c', 'm') and rv[2][1] == pl:
                        rmw[rv[1]] += 1
                    else:
                        # a plain store of a shifted mask overwrites the neighbouring bits
                        src = None
                        if rv[0] == 'use' and rv[1][0] in ('c', 'm'):
                            src = rv[1][1][0]
                        if rv[0] == 'bin' and rv[1] in ('Shl', 'BitOr', 'BitAnd', 'BitXor'):
                            plain += 1
                        elif src is not None and any(o[0] == 'op' and o[1] in ('Shl', 'Not', 'BitOr', 'BitAnd') for o in _orig(fn, src)):
                            plain += 1
        if rmw['BitOr'] >= 1 and rmw['BitAnd'] >= 1 and plain == 0:
            r4.ok('bit-rmw', detail=dict(rmw))
        else:
            r4.bad('bit-rmw', 'bit write is not a read-modify-write of the addressed byte (|= mask for TRUE, &= !mask for FALSE): found %s, %d mask store(s) that overwrite the whole byte' % (dict(rmw), plain), loc=fn.loc(0))
        # ensure_len precedes every indexed write: each IndexMut / index assignment block is dominated by an ensure_len call
        ens = fn.blocks_calling(lambda n: n.endswith('io::ensure_len'))
        idx = fn.calls(lambda n: n.endswith('IndexMut<I>>::index_mut') or n.endswith('::index_mut'))
        missing = [b for b, _, _ in idx if not any(fn.dominates(e, b) for e in ens)]
        r4.saw(len(idx))
        if idx and not missing:
            r4.ok('ensure-len', detail='%d indexed writes, each dominated by ensure_len' % len(idx))
        elif not idx:
            r4.note('no IndexMut calls found in IoInterface::write (direct indexing lowered to bounds checks)')
            bc = [b for b in fn.g if fn.term(b)['k'] == 'assert' and fn.term(b)['m'] == 'BoundsCheck']
            missing = [b for b in bc if not any(fn.dominates(e, b) for e in ens)]
            if bc and not missing:
                r4.ok('ensure-len', detail='%d bounds-checked accesses, each dominated by ensure_len' % len(bc))
            elif missing:
                r4.bad('ensure-len', 'an indexed image write is not preceded by ensure_len (out-of-range address panics)', loc=fn.loc(missing[0]))
        else:
            r4.bad('ensure-len', 'an indexed image write is not preceded by ensure_len (out-of-range address panics)', loc=fn.loc(missing[0]))

    # ------------------------------------------------------------------ R5 coercion tables
    r5 = ctx.rule('C07.R5', 'image coercion tables are mutually inverse and agree with the size table', floor=12, floor_what='type rows')
    _coercion_tables(ctx, r5)

    # ------------------------------------------------------------------ R6 located arrays
    r6 = ctx.rule('C07.R6', 'the byte offset of a located-array element depends on strides and position only, never on the declared index bounds', floor=1)
    from ..dep import deps
    wa = [k for k in fx.fns if re.search(r'harness::io::collect_io_bindings::walk_array$', k)]
    if not wa:
        r6.bad('anchor-missing|walk_array', 'the located-array walk (collect_io_bindings::walk_array) was not found')
    else:
        rec = fx.fns[wa[0]]
        fn = F(rec)
        r6.saw(len(fn.g))
        ptys = [rec['locals'][i] for i in range(1, rec['argc'] + 1)]
        dims = [i + 1 for i, t in enumerate(ptys) if re.search(r'\[\(i64, i64\)\]', t)]
        offs = [i + 1 for i, t in enumerate(ptys) if t == 'u64']
        selfcalls = [(b, t) for b, nm, t in fn.calls(lambda n: n == wa[0])]
        leaf = [(b, t) for b, nm, t in fn.calls(lambda n: n.endswith('harness::io::collect_io_bindings'))]
        if len(dims) != 1 or len(offs) != 1 or not selfcalls:
            r6.bad('shape|walk_array', 'walk_array no longer has one bounds parameter, one byte-offset parameter and a recursive call (found %d/%d/%d): rule needs review' % (len(dims), len(offs), len(selfcalls)), loc=fn.loc(0))
        else:
            for b, t in selfcalls:
                d = deps(fn, t['a'][offs[0] - 1])
                if dims[0] in d.args:
                    r6.bad('offset-independent-of-bounds', 'the byte offset passed down for an array element data-depends on the declared index bounds (parameter %d): for an array whose lower bound is not 0 every element is bound `lower * element size` bytes too far, outside the array\'s addressed span' % dims[0], loc=fn.loc(b))
                elif offs[0] in d.args:
                    r6.ok('offset-independent-of-bounds', loc=fn.loc(b), detail='depends on parameters %s' % sorted(d.args))
                else:
                    r6.bad('offset-independent-of-bounds', 'the byte offset passed down for an array element no longer accumulates the enclosing offset', loc=fn.loc(b))


    # ------------------------------------------------------------------ R7 binding table
    r7 = ctx.rule('C07.R7', 'the I/O binding table is only ever extended by the bind functions: the cycle I/O passes read it and never take, clear or replace it', floor=3, floor_what='binding writers')
    from ..cg import field_writes
    allowed = re.compile(r'trust_runtime::io::IoInterface::(bind\w*|new|default)$|<trust_runtime::io::IoInterface as core::(default::Default|clone::Clone)>::')
    n = 0
    for k in sorted(fx.fns):
        if '::tests::' in k or not k.startswith(('trust_runtime', '<trust_runtime')):
            continue
        w, mb = field_writes(fx.fns[k])
        hit = [ch for ch in (w | mb) if any(f.endswith('IoInterface.bindings') for f in ch)]
        if not hit:
            continue
        n += 1
        r7.saw()
        short = k.split('trust_runtime::')[-1]
        if allowed.search(k.split('::{closure')[0]):
            r7.ok('binding-writer|%s' % short)
        else:
            r7.bad('binding-writer|%s' % short, '%s writes or mutably borrows IoInterface.bindings: outside the bind functions the table must only be read (a take / clear that is not undone on an error exit leaves every later cycle without input latching and output encoding, silently)' % short,
                   loc='%s:%d' % (fx.fns[k]['file'], fx.fns[k]['line']))

    # ------------------------------------------------------------------ R8 every driver / every binding, every cycle
    # (a) the driver loops of the two cycle I/O functions exchange with every driver in every iteration;
    # (b) in the image <-> variable passes the only thing that may decide to skip a binding is the binding itself
    #     (its address area): a skip that depends on state of the interface (a cache of the last image, a health flag)
    #     leaves "variable = decode(latched bytes)" / "bytes = encode(variable)" false for that cycle
    r8 = ctx.rule('C07.R8', 'every cycle exchanges with every driver and moves every bound variable: no iteration of the driver loops avoids the driver call, and a binding is skipped only on its own address area', floor=4, floor_what='loops')
    from ..dep import deps as _deps

    def _loop_with(fn, blocks):
        for c in fn.sccs():
            if len(c) > 1 and any(b in c for b in blocks):
                return set(c)
        return None
    for fid, callee, what in ((CY + 'read_cycle_inputs', r'io::IoDriver::read_inputs$', 'read_inputs'), (CY + 'write_cycle_outputs', r'io::IoDriver::write_outputs$', 'write_outputs')):
        rec = fx.fns.get(fid)
        r8.saw()
        short = fid.split('::')[-1]
        if rec is None:
            r8.bad('anchor-missing|%s' % short, '%s not found' % short)
            continue
        fn = F(rec)
        calls = fn.blocks_calling(lambda n: re.search(callee, n) is not None)
        lp = _loop_with(fn, calls)
        if not calls or lp is None:
            r8.bad('every-driver|%s' % short, '%s has no loop calling the driver\'s %s (shape not recognised)' % (short, what), loc=fn.loc(0))
            continue
        nexts = [b for b in lp if (fn.call_name(b) or '').endswith('::next')]
        if nexts and not any(any(n in c for n in nexts) for c in fn.sccs(removed_nodes=set(calls) | {b for b in fn.g if b not in lp})):
            r8.ok('every-driver|%s' % short, loc=fn.loc(calls[0]))
        else:
            r8.bad('every-driver|%s' % short, 'an iteration of the driver loop in %s can finish without calling the driver\'s %s: that driver\'s cycle is no longer read-then-write, its outputs (or inputs) are those of an earlier cycle' % (short, what), loc=fn.loc(calls[0]))
    IOI = 'trust_runtime::io::IoInterface::'
    for fid, mover, what in ((IOI + 'read_inputs', r'io::IoInterface::read$', 'decoded into its variable'), (IOI + 'write_outputs', r'io::IoInterface::write$', 'encoded into the image')):
        rec = fx.fns.get(fid)
        r8.saw()
        short = fid.split('::')[-1]
        if rec is None:
            r8.bad('anchor-missing|IoInterface::%s' % short, 'IoInterface::%s not found' % short)
            continue
        fn = F(rec)
        moves = fn.blocks_calling(lambda n: re.search(mover, n) is not None)
        lp = _loop_with(fn, moves)
        if not moves or lp is None:
            # the loop may live in a helper of the interface that this entry point wraps (write_outputs -> encode_outputs)
            for b_, nm_, t_ in fn.calls(lambda n: n.startswith(IOI) and n in fx.fns and n != fid):
                f2_ = F(fx.fns[nm_])
                m2_ = f2_.blocks_calling(lambda n: re.search(mover, n) is not None)
                if m2_ and _loop_with(f2_, m2_) is not None:
                    fn, moves, lp = f2_, m2_, _loop_with(f2_, m2_)
                    break
        if not moves or lp is None:
            r8.bad('skip-on-area-only|%s' % short, 'IoInterface::%s has no loop over the bindings around the image access (shape not recognised)' % short, loc=fn.loc(0))
            continue
        nexts = {b for b in lp if (fn.call_name(b) or '').endswith('::next')}
        offending = None
        for b in sorted(lp):
            t = fn.term(b)
            if t['k'] != 'switch':
                continue
            succ = [x for x in fn.g.get(b, ()) if x in lp]
            if len(succ) < 2:
                continue
            skips = [x for x in succ if any(n in fn.reach([x], avoid=set(moves) | {y for y in fn.g if y not in lp}) for n in nexts)]
            # a deciding test: one outcome can reach the next iteration without the move, another cannot
            if not skips or len(skips) == len(succ):
                continue
            if not any(m_ in fn.reach([b]) for m_ in moves):
                continue        # after the move: what happens with the moved value, not whether it moves
            if any(fn.dominates(m_, b) for m_ in moves):
                continue
            d = _deps(fn, t['d'])
            flds = {f for f in d.fields}
            foreign = sorted(f.split('::')[-1] for f in flds if not re.search(r'IoAddress\.|IoBinding\.|IoInterface\.bindings$|option::Option\.0$', f))
            if foreign:
                offending = (b, foreign)
                break
        if offending:
            r8.bad('skip-on-area-only|%s' % short, 'IoInterface::%s decides to skip a binding on %s, which is not a property of the binding: in a cycle where that state says "skip", a bound variable is not %s although the image was latched / the variable was computed' % (short, offending[1][:3], what), loc=fn.loc(offending[0]))
        else:
            r8.ok('skip-on-area-only|%s' % short, loc=fn.loc(moves[0]))

    # (c) publication is all or nothing: when encoding the outputs fails after the image was touched, the image is put
    #     back before the error leaves write_outputs (the faulted cycle's partial outputs would otherwise be what the
    #     safe-state delivery hands to the drivers)
    rec = fx.fns.get(IOI + 'write_outputs')
    r8.saw()
    if rec is not None:
        fn = F(rec)
        cgx = ctx.cg
        restores = [b for b in fn.g if fn.assigns_field(b, lambda f: f.endswith('IoInterface.outputs'))]
        direct = fn.blocks_calling(lambda n: n == IOI + 'write')
        encs = [b for b, nm, t in fn.calls(lambda n: n in fx.fns and n != IOI + 'write' and n.startswith(IOI) and (IOI + 'write') in cgx.reach([n]))]
        okp = None
        if encs and restores and not direct:
            okp = True
            for b in encs:
                pos, neg, _ = call_result_edges(fn, b)
                ok_, path = fn.must_pass_from([b], set(restores), removed_edges=pos)
                if not pos or not ok_:
                    okp = False
        elif direct and restores:
            # single function: every error exit after a write passes the restore
            okp = True
            for b in direct:
                pos, neg, _ = call_result_edges(fn, b)
                ok_, path = fn.must_pass_from([b], set(restores), removed_edges=pos)
                if not ok_:
                    okp = False
        if okp:
            r8.ok('publish-all-or-nothing', loc=fn.loc(restores[0]))
        else:
            r8.bad('publish-all-or-nothing', 'IoInterface::write_outputs can fail after some bindings were already encoded into the live image, and the image is not put back: the fault handling (safe state under SafeHalt) then delivers the partial outputs of the faulted cycle to the drivers', loc=fn.loc((direct or encs or [0])[0]))


def _type_rows(fx, fid, inner_is_value=True):
    """{TYPE: set(of (pattern value variants), (constructed value variants))} from a match on TypeId consts with nested value matches"""
    rows = {}
    ms = fx.matches_in(fid)
    outer = [m for m in ms if m['sty'].endswith('TypeId')]
    if not outer:
        return rows
    inner = [m for m in ms if m['sty'].endswith('value::types::Value')]
    for arm in outer[0]['arms']:
        tys = [p.split('::')[-1] for p in arm['pats'] if p.startswith('variant:') and 'TypeId::' in p]
        if not tys:
            continue
        # nested match arms belonging to this arm: those whose line lies within [arm.line, next arm line)
        rows_for = []
        for im in inner:
            if im['line'] >= arm['line']:
                rows_for.append(im)
        for t in tys:
            rows[t] = arm
    return rows


def _coercion_tables(ctx, r5):
    fx = ctx.fx
    cf, ct, es = 'trust_runtime::io::coerce_from_io', 'trust_runtime::io::coerce_to_io', 'trust_runtime::io::expected_size_for_type'
    for f in (cf, ct, es):
        if f not in fx.fns:
            r5.bad('anchor-missing|%s' % f, 'function not found')
            return
    SIZE_OF_IMG = {'Bool': 'Bit', 'Byte': 'Byte', 'Word': 'Word', 'DWord': 'DWord', 'LWord': 'LWord'}

    def nested(fid):
        """TYPE -> (image-side value variants in patterns, constructed value variants)"""
        ms = fx.matches_in(fid)
        outer = [m for m in ms if m['sty'].endswith('TypeId')]
        inner = sorted([m for m in ms if m['sty'].endswith('value::types::Value')], key=lambda m: m['line'])
        out = {}
        if not outer:
            return out
        arms = sorted(outer[0]['arms'], key=lambda a: a['line'])
        for i, arm in enumerate(arms):
            tys = [p.split('::')[-1] for p in arm['pats'] if 'TypeId::' in p]
            hi = arms[i + 1]['line'] if i + 1 < len(arms) else 10 ** 9
            pats, cons = set(), set()
            for im in inner:
                if arm['line'] <= im['line'] < hi:
                    for ia in im['arms']:
                        pv = [re.search(r'Value::(\w+)', p).group(1) for p in ia['pats'] if re.search(r'Value::(\w+)', p)]
                        cv = [r.split('::')[-1] for r in ia['refs'] if r.startswith('trust_runtime::value::types::Value::')]
                        if pv and cv:
                            pats.update(pv)
                            cons.update(cv)
            for t in tys:
                out[t] = (pats, cons)
        return out
    frm = nested(cf)     # TYPE -> (image variants matched, value variants built)
    to = nested(ct)      # TYPE -> (value variants matched, image variants built)
    sizes = {}
    for m in fx.matches_in(es):
        if m['sty'].endswith('TypeId'):
            for arm in m['arms']:
                sz = [r.split('::')[-1] for r in arm['refs'] if r.startswith('trust_runtime::io::IoSize::')]
                for p in arm['pats']:
                    if 'TypeId::' in p and sz:
                        sizes[p.split('::')[-1]] = sz[0]
    r5.saw(len(frm) + len(to) + len(sizes))
    for t in sorted(set(frm) | set(sizes)):
        img_f, val_f = frm.get(t, (set(), set()))
        val_t, img_t = to.get(t, (set(), set()))
        probs = []
        if t not in frm:
            probs.append('no coerce_from_io row')
        if t not in sizes:
            probs.append('no expected_size_for_type row')
        if t in to:
            if img_f and img_t and not (img_f & img_t):
                probs.append('coerce_from_io reads image class %s but coerce_to_io writes %s' % (sorted(img_f), sorted(img_t)))
            if val_f and val_t and not (val_f & val_t):
                probs.append('coerce_from_io builds %s but coerce_to_io accepts %s' % (sorted(val_f), sorted(val_t)))
        if t in sizes and img_f:
            exp = {SIZE_OF_IMG.get(v) for v in img_f}
            if sizes[t] not in exp:
                probs.append('size table says IoSize::%s but the image class is %s' % (sizes[t], sorted(img_f)))
        # the built value class matches the declared type name
        if val_f and t.lower() not in {v.lower() for v in val_f}:
            probs.append('coerce_from_io builds %s for declared type %s' % (sorted(val_f), t))
        if probs:
            r5.bad('row|%s' % t, '; '.join(probs), loc='%s:%d' % (fx.fns[cf]['file'], fx.fns[cf]['line']))
        else:
            r5.ok('row|%s' % t, detail='%s <-> %s (%s)' % (sorted(img_f), sorted(val_f), sizes.get(t)))
