"""C02 — interpreter agrees with an IEC reference semantics (thin).

Numerical equality with a reference evaluator is value-level and not decided.  Decided
statically, each a necessary condition: (R1) operator tables agree: the tokens the lowering
maps to a runtime operator are mapped by the type checker to the same-named operator, and in
the arithmetic/compare kernels the arm for operator X computes with machine operation X on
(left, right) in that order; (R2) integer results are produced only through the widen ->
range-check constructors; (R3) AND/OR evaluate their right operand only after testing the
left result; (R4) loop tests are placed per IEC (FOR/WHILE test before the body, REPEAT body
before the test); (R5) the binding-power table orders the operator classes per the spec;
(R6) call arguments: inputs are bound from evaluated values, outputs written back after the
callee frame was popped.
"""
import re

from ..cfg import F, op_local, place_fields
from ..gates import call_result_edges, guarded
from ..prov import origins, operand_origins

CRATES = ['trust_runtime', 'trust_hir', 'trust_syntax']
NODEFAULT_OK = False
EXPLANATION = __doc__

NORM = {'neq': 'ne', 'lteq': 'le', 'gteq': 'ge', 'power': 'pow'}


def _n(s):
    s = s.lower()
    return NORM.get(s, s)


def _token_table(fx, fid, op_prefix):
    """{SyntaxKind token: op variant} from the match on token.kind() in fid"""
    out = {}
    for m in fx.matches_in(fid):
        if not m['sty'].endswith('SyntaxKind'):
            continue
        for arm in m['arms']:
            toks = [p.split('::')[-1] for p in arm['pats'] if p.startswith('variant:') and 'SyntaxKind::' in p]
            ops = [r.split('::')[-1] for r in arm['refs'] if op_prefix in r]
            for t in toks:
                if ops:
                    out[t] = ops[0]
    return out


def run(ctx):
    fx, cg = ctx.fx, ctx.cg
    # ------------------------------------------------------------------ R1
    r1 = ctx.rule('C02.R1', 'operator tables agree between lowering, type checker and the arithmetic kernels', floor=25)
    low = [k for k in fx.fns if k.endswith('harness::lower::expr::binary_op_from_node')]
    chk = [k for k in fx.fns if re.search(r'trust_hir::type_check::ops::BinaryOp::from_node$', k)]
    if not low or not chk:
        r1.bad('anchor-missing|op-tables', 'operator mapping functions not found (lowering %s, checker %s)' % (low, chk))
    else:
        lt = _token_table(fx, low[0], 'eval::ops::BinaryOp::')
        ct = _token_table(fx, chk[0], 'type_check::ops::BinaryOp::')
        r1.saw(len(lt) + len(ct))
        for tok in sorted(set(lt) | set(ct)):
            key = 'token|%s' % tok
            loc = '%s:%d' % (fx.fns[chk[0]]['file'], fx.fns[chk[0]]['line'])
            if tok in lt and tok not in ct:
                r1.bad(key, 'the lowering maps token %s to runtime operator %s but the type checker does not know it (BinaryOp::Unknown): expressions with this operator are not type-checked, so an ill-typed one is accepted and fails at run time with TypeMismatch' % (tok, lt[tok]), loc=loc)
            elif tok in ct and tok not in lt:
                r1.bad(key, 'the checker accepts operator token %s but the lowering cannot translate it' % tok, loc='%s:%d' % (fx.fns[low[0]]['file'], fx.fns[low[0]]['line']))
            elif _n(lt[tok]) != _n(ct[tok]):
                r1.bad(key, 'token %s means %s to the checker but %s to the runtime' % (tok, ct[tok], lt[tok]), loc=loc)
            else:
                r1.ok(key, detail=lt[tok])
    # logical / bitwise operand table: what the checker types as a bit-string operation is what the interpreter evaluates
    lob = 'trust_runtime::eval::ops::logical_or_bitwise'
    ibs = [k for k in fx.fns if k.endswith('types::defs::Type::is_bit_string')]
    rt_set, ck_set = set(), set()
    for m in fx.matches_in(lob):
        if m['sty'].startswith('(trust_runtime::value::types::Value, trust_runtime::value::types::Value)'):
            for arm in m['arms']:
                for pat in arm['pats']:
                    vs = re.findall(r'Value::(\w+)\(', pat)
                    if len(vs) == 2 and vs[0] == vs[1]:
                        rt_set.add(vs[0])
    if ibs:
        for m in fx.matches_in(ibs[0]):
            for arm in m['arms']:
                if any(r == 'lit:bool:true' for r in arm['refs']):
                    ck_set |= {pat.split('::')[-1] for pat in arm['pats'] if pat.startswith('variant:')}
    r1.saw(len(rt_set) + len(ck_set))
    if not rt_set or not ck_set:
        r1.bad('anchor-missing|bit-string-table', 'operand tables of the logical operators not found (runtime %s, checker %s)' % (sorted(rt_set), sorted(ck_set)))
    elif rt_set == ck_set:
        r1.ok('bit-string-operands', detail=sorted(rt_set))
    else:
        only_ck = sorted(ck_set - rt_set)
        only_rt = sorted(rt_set - ck_set)
        r1.bad('bit-string-operands', 'AND/OR/XOR operand types disagree: %s' % '; '.join(x for x in (
            ('the checker accepts %s, which the interpreter rejects with TypeMismatch' % only_ck) if only_ck else '',
            ('the interpreter evaluates %s, which the checker rejects' % only_rt) if only_rt else '') if x), loc='%s:%d' % (fx.fns[lob]['file'], fx.fns[lob]['line']) if lob in fx.fns else None)
    # kernels: arm X uses machine op X on (a, b)
    # the std `checked_*` forms are the same machine operation with the overflow reported (and `wrapping_rem` differs from
    # `%` only in not trapping on MIN % -1, whose remainder is 0); the Euclidean / wrapping / saturating forms are not
    MACH = {'Add': {'Add', 'AddWithOverflow', 'checked_add'}, 'Sub': {'Sub', 'SubWithOverflow', 'checked_sub'}, 'Mul': {'Mul', 'MulWithOverflow', 'checked_mul'},
            'Div': {'Div', 'checked_div'}, 'Mod': {'Rem', 'checked_rem', 'wrapping_rem'},
            'Lt': {'Lt', 'lt'}, 'Le': {'Le', 'le'}, 'Gt': {'Gt', 'gt'}, 'Ge': {'Ge', 'ge'}, 'And': {'BitAnd', 'bitand'}, 'Or': {'BitOr', 'bitor'}, 'Xor': {'BitXor', 'bitxor'}}
    for fid in sorted(k for k in fx.fns if re.search(r'trust_runtime::eval::ops::(numeric_arith|bit_op|ord_cmp|numeric_cmp|time_cmp_values|logical_or_bitwise)$', k)):
        fn = F(fx.fns[fid])
        fname = fid.split('::')[-1]
        # per-op blocks: the switch on discriminant(op) -> target block per variant index; find machine ops in the region owned by each target
        adt = fx.adts.get('trust_runtime::eval::ops::BinaryOp')
        if not adt:
            r1.bad('anchor-missing|BinaryOp', 'BinaryOp enum not found')
            break
        names = [v['name'] for v in adt['variants']]
        opl = set(fn.local_of('op'))
        for b in fn.g:
            t = fn.term(b)
            if t['k'] != 'switch':
                continue
            l = op_local(t['d'])
            if l is None:
                continue
            dd = fn.defs.get(l, [])
            if not (len(dd) == 1 and dd[0][1] == 'A' and dd[0][2][0] == 'discr' and dd[0][2][1][0] in opl):
                continue
            targets = {int(v): tb for v, tb in t['v']}
            if len(targets) < 3:
                continue    # `matches!(op, X)` pre-tests, not the operator table
            all_t = set(targets.values()) | {t['o']}
            for vi, tb in sorted(targets.items()):
                if vi >= len(names):
                    continue
                opn = names[vi]
                if opn not in MACH:
                    continue
                # blocks reachable from tb without entering another arm's target
                region = fn.reach([tb], avoid=all_t - {tb})
                found = set()
                order_ok = True
                for rb in region:
                    for s in fn.bbs[rb]['s']:
                        if s[0] == 'A' and s[2][0] == 'bin':
                            found.add(s[2][1])
                    nm = fn.call_name(rb) or ''
                    mm = re.search(r'::(checked_sub|checked_add|checked_mul|checked_div|checked_rem|wrapping_rem|lt|le|gt|ge|bitand|bitor|bitxor|partial_cmp)$', nm)
                    if mm:
                        found.add(mm.group(1))
                found_rel = {f for f in found if f in set().union(*MACH.values())}
                if not found_rel:
                    # the arm does not use any machine operation of the table: acceptable only when it is a plain
                    # rejection (returns an error and calls nothing); otherwise it computes the operator some other way
                    calls_in = sorted({(fn.call_name(rb) or '').split('::')[-1] for rb in region if fn.term(rb)['k'] == 'call'} - {'', 'branch', 'from_residual', 'ok_or', 'try_from', 'map_err', 'from'})
                    if calls_in and opn in ('Add', 'Sub', 'Mul', 'Div', 'Mod'):
                        r1.saw()
                        r1.bad('kernel|%s|%s' % (fname, opn), 'in %s the arm for BinaryOp::%s does not use the machine operation %s but %s: the operator no longer has its IEC meaning (MOD, for instance, is the remainder of the truncating division: -7 MOD 3 = -1)' % (
                            fname, opn, sorted(MACH[opn]), calls_in), loc=fn.loc(tb))
                    continue
                r1.saw()
                key = 'kernel|%s|%s' % (fname, opn)
                if found_rel & MACH[opn] and not (found_rel - MACH[opn] - {'Eq', 'Ne', 'BitAnd'}):
                    r1.ok(key, loc=fn.loc(tb))
                else:
                    r1.bad(key, 'in %s the arm for BinaryOp::%s computes with %s' % (fname, opn, sorted(found_rel)), loc=fn.loc(tb))

    # ------------------------------------------------------------------ R2
    r2 = ctx.rule('C02.R2', 'integer results of arithmetic are built only by the widen -> range-check constructors', floor=2)
    na = fx.fns.get('trust_runtime::eval::ops::numeric_arith')
    if na is None:
        r2.bad('anchor-missing|numeric_arith', 'numeric_arith not found')
    else:
        fn = F(na)
        r2.saw(len(fn.g))
        ints = ('SInt', 'Int', 'DInt', 'LInt', 'USInt', 'UInt', 'UDInt', 'ULInt')
        direct = []
        for b in fn.g:
            for s in fn.bbs[b]['s']:
                if s[0] == 'A' and s[2][0] == 'agg' and any(s[2][1].endswith('value::types::Value::' + v) for v in ints):
                    direct.append(b)
        ctors = fn.calls(lambda n: re.search(r'trust_runtime::numeric::(signed_from_i128|unsigned_from_u128)$', n) is not None)
        if direct:
            r2.bad('no-direct-int-construction', 'numeric_arith builds an integer Value directly (line %d) instead of going through signed_from_i128/unsigned_from_u128: the result is not range-checked against the operand type' % fn.line(direct[0]), loc=fn.loc(direct[0]))
        elif len(ctors) >= 2:
            r2.ok('no-direct-int-construction', detail='%d constructor calls' % len(ctors))
        else:
            r2.bad('no-direct-int-construction', 'numeric_arith no longer calls the range-checking constructors', loc=fn.loc(0))
        for cid in ('trust_runtime::numeric::signed_from_i128', 'trust_runtime::numeric::unsigned_from_u128'):
            rec = fx.fns.get(cid)
            if rec is None:
                r2.bad('anchor-missing|%s' % cid.split('::')[-1], 'constructor not found')
                continue
            cf = F(rec)
            r2.saw(len(cf.g))
            tf = cf.calls(lambda n: re.search(r'TryFrom<.*>::try_from$|TryInto<.*>::try_into$', n) is not None)
            # any integer-to-integer cast of the wide value is a truncation (every target kind is narrower than 128 bits)
            wide = {l for l in range(len(rec['locals'])) if cf.local_ty(l) in ('i128', 'u128')}
            casts = [(b, s) for b in cf.g for s in cf.bbs[b]['s'] if s[0] == 'A' and s[2][0] == 'cast' and 'IntToInt' in s[2][1] and
                     op_local(s[2][2]) is not None and (op_local(s[2][2]) in wide or (_src(cf, op_local(s[2][2])) & wide))]
            # one range-checked conversion per integer kind of the family
            kinds = [a for m in fx.matches_in(cid) for a in m['arms'] if any('NumericKind::' in p for p in a['pats'])]
            nk = sum(1 for a in kinds for p in a['pats'] if 'NumericKind::' in p)
            if casts:
                b, st = casts[0]
                r2.bad('range-check|%s' % cid.split('::')[-1], 'the constructor narrows the 128-bit result with a truncating `as` cast to %s: an out-of-range result wraps instead of raising Overflow' % cf.local_ty(st[1][0]), loc=cf.loc(b))
            elif len(tf) >= 4 and len(tf) >= nk:
                r2.ok('range-check|%s' % cid.split('::')[-1], detail='%d try_from conversions for %d kinds, no truncating cast' % (len(tf), nk))
            else:
                r2.bad('range-check|%s' % cid.split('::')[-1], 'the constructor has %d range-checked conversions for %d integer kinds: a kind is built without its range check' % (len(tf), nk), loc=cf.loc(0))

    # ------------------------------------------------------------------ R3 / R4 / R6 are placement rules over eval::expr / stmt / call
    r3 = ctx.rule('C02.R3', 'AND/OR short-circuit: the right operand is evaluated only after a test of the left result', floor=2)
    ee = [k for k in fx.fns if re.search(r'trust_runtime::eval::expr::eval::eval_expr$', k)]
    if not ee:
        r3.bad('anchor-missing|eval_expr', 'eval_expr not found')
    else:
        rec = fx.fns[ee[0]]
        fn = F(rec)
        r3.saw(len(fn.g))
        _short_circuit(fx, rec, fn, ee[0], r3)

    r4 = ctx.rule('C02.R4', 'loop tests placed per IEC: WHILE/FOR test before the body, REPEAT body before the test; FOR leaves when the control value has passed the end in the direction of the step', floor=6)
    es = fx.fns.get('trust_runtime::eval::stmt::exec_stmt')
    if es is None:
        r4.bad('anchor-missing|exec_stmt', 'exec_stmt not found')
    else:
        fn = F(es)
        r4.saw(len(fn.g))
        blocks = set(fn.blocks_calling(lambda n: n.endswith('eval::stmt::exec_block')))
        evb = set(fn.blocks_calling(lambda n: n.endswith('eval::stmt::eval_bool')))
        adds = set(fn.blocks_calling(lambda n: re.search(r'::checked_add$', n) is not None))
        loops = {}
        for comp in fn.sccs():
            comp = set(comp)
            body = sorted(b for b in comp if b in blocks)
            if not body or len(comp) < 2:
                continue
            entries = sorted(b for b in comp if any(p not in comp for p in fn.preds.get(b, [])))
            if len(entries) != 1 or len(body) != 1:
                r4.bad('loop-shape|%d' % len(loops), 'a statement loop with %d entries and %d body executions' % (len(entries), len(body)), loc=fn.loc(min(comp)))
                continue
            ent, B = entries[0], body[0]
            tests = sorted(b for b in comp if b in evb)
            incs = sorted(b for b in comp if b in adds)
            kind = 'for' if incs else 'cond'
            if kind == 'cond':
                if len(tests) != 1:
                    r4.bad('loop-shape|cond', 'a conditional loop with %d condition evaluations' % len(tests), loc=fn.loc(ent))
                    continue
                T = tests[0]
                pos, neg, _ = call_result_edges(fn, T)   # the `?`
                # boolean payload of the condition
                carry = _forward_locals(fn, fn.term(T)['d'][0])
                sw = [sb for sb in comp if fn.term(sb)['k'] == 'switch' and op_local(fn.term(sb)['d']) in carry and fn.local_ty(op_local(fn.term(sb)['d'])) == 'bool']
                body_first = B in fn.reach([ent], avoid={T}) and T not in fn.reach([ent], avoid={B})
                test_first = T in fn.reach([ent], avoid={B}) and B not in fn.reach([ent], avoid={T})
                if not sw:
                    r4.bad('loop-shape|cond', 'the loop condition is not branched on', loc=fn.loc(T))
                    continue
                st = fn.term(sw[0])
                ex = {int(v): tb for v, tb in st['v']}
                false_t = ex.get(0, None if 1 not in ex else st['o'])
                true_t = ex.get(1, st['o'] if 0 in ex else None)
                # through a `!` the switch is on the negated local: follow one Not
                negated = _is_negation(fn, op_local(st['d']), carry)
                if negated:
                    false_t, true_t = true_t, false_t
                if test_first:
                    name = 'WHILE'
                    good = (true_t in comp) and (false_t not in comp)
                    why = 'WHILE must run the body while the condition is TRUE and leave when it is FALSE'
                elif body_first:
                    name = 'REPEAT'
                    good = (false_t in comp) and (true_t not in comp)
                    why = 'REPEAT must leave when the UNTIL condition is TRUE and repeat while it is FALSE'
                else:
                    name, good, why = 'mixed', False, 'test and body are not ordered'
                loops[name] = loops.get(name, 0) + 1
                if good:
                    r4.ok('placement|%s' % name, loc=fn.loc(T))
                else:
                    r4.bad('placement|%s' % name, 'condition polarity or placement wrong: %s' % why, loc=fn.loc(T))
                # CONTINUE/normal completion re-evaluate the condition: every path B -> B passes T
                if _cycle_avoiding(fn, comp, B, {T}):
                    r4.bad('retest|%s' % name, 'the body can run again without the condition being evaluated in between', loc=fn.loc(B))
                else:
                    r4.ok('retest|%s' % name, loc=fn.loc(B))
            else:
                loops['FOR'] = loops.get('FOR', 0) + 1
                if len(incs) != 1:
                    r4.bad('for|increment', 'FOR loop with %d increments' % len(incs), loc=fn.loc(ent))
                    continue
                I = incs[0]
                a = fn.term(I)['a']
                cur, step = op_local(a[0]), op_local(a[1])
                curs = {cur} | _src(fn, cur)
                steps = {step} | _src(fn, step)
                # comparisons of the control value inside the loop
                cmps = []
                for b in sorted(comp):
                    for s in fn.bbs[b]['s']:
                        if s[0] == 'A' and s[2][0] == 'bin' and s[2][1] in ('Gt', 'Lt', 'Ge', 'Le'):
                            la, lb = op_local(s[2][2]), op_local(s[2][3])
                            sa = ({la} | _src(fn, la)) if la is not None else set()
                            sb_ = ({lb} | _src(fn, lb)) if lb is not None else set()
                            if sa & curs:
                                cmps.append((b, s[1][0], s[2][1], 'cur-left', s[2][3]))
                            elif sb_ & curs:
                                cmps.append((b, s[1][0], {'Gt': 'Lt', 'Lt': 'Gt', 'Ge': 'Le', 'Le': 'Ge'}[s[2][1]], 'cur-right', s[2][2]))
                if len(cmps) < 2:
                    r4.bad('for|test', 'the FOR loop does not compare the control value against the end value for both step directions', loc=fn.loc(ent))
                    continue
                cb = {c[0] for c in cmps}
                from ..gates import test_edges

                def step_seeds(rel):
                    out = {}
                    for l, dl in fn.defs.items():
                        if len(dl) == 1 and dl[0][1] == 'A' and dl[0][2][0] == 'bin':
                            rv = dl[0][2]
                            la = op_local(rv[2])
                            if la is not None and (({la} | _src(fn, la)) & steps) and rv[1] == rel and rv[3][0] == 'k' and re.match(r'0(_i\d+)?$', rv[3][2].strip()):
                                out[l] = ('bool', True)
                    return out
                gpos, gneg, _ = test_edges(fn, step_seeds('Gt')) if step_seeds('Gt') else (set(), set(), [])
                lpos, lneg, _ = test_edges(fn, step_seeds('Lt')) if step_seeds('Lt') else (set(), set(), [])
                zpos, zneg, _ = test_edges(fn, step_seeds('Eq')) if step_seeds('Eq') else (set(), set(), [])
                # premise: step = 0 never enters the loop
                if not zpos or ent in fn.reach([0], removed_edges=zneg):
                    r4.bad('for|step-zero', 'a FOR loop with step 0 is not rejected before the loop is entered', loc=fn.loc(ent))
                else:
                    r4.ok('for|step-zero')
                escapes = [case for case, removed in (('step>0', gneg | lpos), ('step<0', gpos | lneg))
                           if B in fn.reach([ent], removed_edges=removed, avoid=cb)]
                if escapes:
                    r4.bad('for|test-before-body', 'the FOR body can run without the termination test having been evaluated in this iteration (%s) (IEC: tested before each iteration, so `FOR i := 5 TO 1` runs zero times)' % ', '.join(escapes), loc=fn.loc(B))
                else:
                    r4.ok('for|test-before-body', loc=fn.loc(B))
                # exit relation: on the edge leaving the loop the relation must be strict (> for positive step, < for negative)
                rels = {}
                for (b, res, rel, side, other) in cmps:
                    for sb in comp:
                        st = fn.term(sb)
                        if st['k'] == 'switch' and op_local(st['d']) == res:
                            ex = {int(v): tb for v, tb in st['v']}
                            false_t = ex.get(0, None if 1 not in ex else st['o'])
                            true_t = ex.get(1, st['o'] if 0 in ex else None)
                            leaves_true = true_t is not None and B not in fn.reach([true_t], avoid={ent}) and true_t not in comp
                            leaves_false = false_t is not None and false_t not in comp
                            NEG = {'Gt': 'Le', 'Lt': 'Ge', 'Ge': 'Lt', 'Le': 'Gt'}
                            if leaves_true:
                                rels[rel] = b
                            if leaves_false:
                                rels[NEG[rel]] = b
                if set(rels) == {'Gt', 'Lt'}:
                    r4.ok('for|exit-relation', detail='leaves when control > end (step>0) or control < end (step<0)')
                else:
                    r4.bad('for|exit-relation', 'the FOR loop leaves on the relations %s between control value and end; IEC requires the end value itself to be included (leave only on > for a positive step, < for a negative step)' % sorted(rels), loc=fn.loc(cmps[0][0]))
                # step direction pairing: the > test applies when step > 0, the < test when step < 0
                pair_ok = bool(gpos) and bool(lpos)
                for want_rel, permit in (('Gt', gpos), ('Lt', lpos)):
                    cblocks = [c[0] for c in cmps if c[2] == want_rel]
                    if not cblocks or any(c in fn.reach([ent], removed_edges=permit) for c in cblocks):
                        pair_ok = False
                if pair_ok:
                    r4.ok('for|step-direction')
                else:
                    r4.bad('for|step-direction', 'the end test is not selected by the sign of the step (control > end for a positive step, control < end for a negative step)', loc=fn.loc(cmps[0][0]))
                # every way from the body back to the test increments the control variable (also CONTINUE)
                if _cycle_avoiding(fn, comp, B, {I}):
                    r4.bad('for|increment-every-iteration', 'the FOR body can be re-entered without the control variable having been incremented (e.g. after CONTINUE): the loop does not terminate', loc=fn.loc(B))
                else:
                    r4.ok('for|increment-every-iteration', loc=fn.loc(I))
        for name in ('WHILE', 'REPEAT', 'FOR'):
            if loops.get(name) != 1:
                r4.bad('loops|%s' % name, 'expected exactly one %s loop in exec_stmt, found %s' % (name, loops.get(name, 0)), loc=fn.loc(0))

    r5 = ctx.rule('C02.R5', 'binding powers order the operator classes OR < XOR < AND < comparison < additive < multiplicative < power < unary; binary operators other than ** associate left', floor=7)
    ib = [k for k in fx.fns if re.search(r'trust_syntax::lexer::tokens::TokenKind::infix_binding_power$', k)]
    pb = [k for k in fx.fns if re.search(r'trust_syntax::lexer::tokens::TokenKind::prefix_binding_power$', k)]
    if not ib or not pb:
        r5.bad('anchor-missing|binding-power', 'binding power tables not found')
    else:
        table = {}
        for m in fx.matches_in(ib[0]):
            for arm in m['arms']:
                toks = [p.split('::')[-1] for p in arm['pats'] if p.startswith('variant:') and 'TokenKind::' in p]
                ints = [int(r.split(':')[-1]) for r in arm['refs'] if r.startswith('lit:int:')]
                if toks and len(ints) == 2:
                    for tkn in toks:
                        table[tkn] = (ints[0], ints[1])
        pre = {}
        for m in fx.matches_in(pb[0]):
            for arm in m['arms']:
                toks = [p.split('::')[-1] for p in arm['pats'] if p.startswith('variant:') and 'TokenKind::' in p]
                ints = [int(r.split(':')[-1]) for r in arm['refs'] if r.startswith('lit:int:')]
                for tkn in toks:
                    if ints:
                        pre[tkn] = ints[0]
        r5.saw(len(table) + len(pre))
        classes = [('or', ['KwOr']), ('xor', ['KwXor']), ('and', ['KwAnd', 'Ampersand']), ('comparison', ['Eq', 'Neq', 'Lt', 'LtEq', 'Gt', 'GtEq']),
                   ('additive', ['Plus', 'Minus']), ('multiplicative', ['Star', 'Slash', 'KwMod']), ('power', ['Power'])]
        prev_hi = -1
        okall = True
        for cname, toks in classes:
            bps = {table.get(t) for t in toks}
            if None in bps or len(bps) != 1:
                r5.bad('class|%s' % cname, 'operator class %s does not have one common binding power: %s' % (cname, {t: table.get(t) for t in toks}))
                okall = False
                continue
            l, r = list(bps)[0]
            if min(l, r) <= prev_hi:
                r5.bad('class|%s' % cname, 'operator class %s (binding power %s) does not bind tighter than the class below it' % (cname, (l, r)))
                okall = False
            elif cname != 'power' and not l < r:
                r5.bad('class|%s' % cname, 'operator class %s is not left-associative (binding power %s)' % (cname, (l, r)))
                okall = False
            else:
                r5.ok('class|%s' % cname, detail=(l, r))
            prev_hi = max(l, r)
        un = {pre.get(t) for t in ('KwNot', 'Plus', 'Minus')}
        if None not in un and len(un) == 1 and list(un)[0] > prev_hi:
            r5.ok('class|unary', detail=list(un)[0])
        else:
            r5.bad('class|unary', 'unary operators (NOT, +, -) do not bind tighter than every binary operator: %s vs %d' % (pre, prev_hi))
        r5.note('** is right-associative (14, 13) as documented in docs/specs/10-runtime.md; docs/specs/05-expressions.md lists it left-to-right (spec inconsistency, recorded in DESIGN.md)')

    r6 = ctx.rule('C02.R6', 'argument binding: output values are written back after the callee frame was popped', floor=3)
    sr = fx.adts.get('trust_runtime::eval::stmt::StmtResult')
    sr_names = [v['name'] for v in sr['variants']] if sr else []
    for cf in ('trust_runtime::eval::call_function', 'trust_runtime::eval::call_method', 'trust_runtime::eval::call_function_block'):
        if cf not in fx.fns or not sr_names:
            continue
        fn = F(fx.fns[cf])
        r6.saw()
        short = cf.split('::')[-1]
        wov = set(fn.blocks_calling(lambda n: n.endswith('eval::write_output_values')))
        body = fn.blocks_calling(lambda n: re.search(r'eval::(stmt::)?exec_block$', n) is not None)
        if not wov or not body:
            r6.bad('copy-out-on-normal-completion|%s' % short, '%s no longer runs the callee body / writes outputs back (shape not recognised)' % short, loc=fn.loc(0))
            continue
        # switches on the discriminant of the body result (a StmtResult-typed local)
        missing = set()
        seen_sw = False
        for b_ in fn.g:
            t = fn.term(b_)
            if t['k'] != 'switch':
                continue
            l = op_local(t['d'])
            dd = fn.defs.get(l, []) if l is not None else []
            if not (len(dd) == 1 and dd[0][1] == 'A' and dd[0][2][0] == 'discr'):
                continue
            if not fn.local_ty(dd[0][2][1][0]).endswith('eval::stmt::StmtResult'):
                continue
            if not (wov & fn.reach([b_])):
                continue        # a result match after the write-back (e.g. the final control-flow check)
            ex = {int(v): tb for v, tb in t['v']}
            alls = set(ex.values()) | ({t['o']} if t.get('o') is not None else set())
            for vname in ('Continue', 'Return'):
                vi = sr_names.index(vname)
                tgt = ex.get(vi, t.get('o'))
                if tgt is None:
                    continue
                region = fn.reach([tgt])
                # this switch decides about the copy-out when its outcomes differ in reaching the write-back
                reach_w = [bool(wov & fn.reach([x])) for x in alls]
                if any(reach_w) and not all(reach_w):
                    seen_sw = True
                    if not (wov & region):
                        missing.add(vname)
        if missing:
            r6.bad('copy-out-on-normal-completion|%s' % short, '%s does not copy the outputs back when the body ended with %s: `=>` outputs and VAR_IN_OUT write-backs of that call are dropped silently' % (short, sorted(missing)), loc=fn.loc(body[0]))
        else:
            r6.ok('copy-out-on-normal-completion|%s' % short, detail='decided by a result switch' if seen_sw else 'unconditional after the body')
    for cf in ('trust_runtime::eval::call_function', 'trust_runtime::eval::call_method', 'trust_runtime::eval::call_function_block'):
        rec = fx.fns.get(cf)
        if rec is None:
            r6.bad('anchor-missing|%s' % cf.split('::')[-1], 'function not found')
            continue
        fn = F(rec)
        r6.saw(len(fn.g))
        pops = set(fn.blocks_calling(lambda n: n.endswith('VariableStorage::pop_frame')))
        wov = fn.blocks_calling(lambda n: n.endswith('eval::write_output_values'))
        early = [w for w in wov if w in fn.reach([0], avoid=pops)]
        if wov and not early:
            r6.ok('write-back-after-pop|%s' % cf.split('::')[-1], detail='%d write-back sites' % len(wov))
        else:
            r6.bad('write-back-after-pop|%s' % cf.split('::')[-1], 'output parameters are written back while the callee frame is still on the stack: the targets resolve in the callee\'s scope instead of the caller\'s', loc=fn.loc(early[0]) if early else fn.loc(0))


def _src(fn, l, depth=0):
    out = set()
    if l is None or depth > 4:
        return out
    for (b, k, rv) in fn.defs.get(l, []):
        if k == 'A' and rv[0] == 'use' and rv[1][0] in ('c', 'm') and not rv[1][1][1]:
            out.add(rv[1][1][0])
            out |= _src(fn, rv[1][1][0], depth + 1)
    return out


def _promoted_variant(rec, fn, o, depth=0):
    """operand -> last path segment of the enum variant held by the promoted constant it refers to"""
    if depth > 4:
        return None
    if o[0] == 'k':
        m = re.search(r'promoted\[(\d+)\]', o[2])
        if m:
            pr = rec.get('promoted') or []
            k = int(m.group(1))
            if k < len(pr):
                for rv in pr[k]:
                    if rv[0] == 'agg':
                        return rv[1].split('::')[-1]
        return None
    if o[0] in ('c', 'm'):
        for (b, k, rv) in fn.defs.get(o[1][0], []):
            if k != 'A':
                continue
            if rv[0] == 'use':
                r = _promoted_variant(rec, fn, rv[1], depth + 1)
                if r:
                    return r
            if rv[0] == 'ref':
                r = _promoted_variant(rec, fn, ['c', [rv[2][0], []]], depth + 1)
                if r:
                    return r
    return None


_TRYB = re.compile(r'Try>::branch$|core::result::Result::<.*>::(ok|map_err)$|core::option::Option::<.*>::ok_or$')


def _forward_locals(fn, l0):
    """locals that carry (a part of) the value in l0: moves, projections and the `?` operator"""
    out = {l0}
    changed = True
    while changed:
        changed = False
        for l, dl in fn.defs.items():
            if l in out:
                continue
            for (b, k, rv) in dl:
                if k == 'A' and rv[0] in ('use', 'un') and (rv[1] if rv[0] == 'use' else rv[2])[0] in ('c', 'm') and (rv[1] if rv[0] == 'use' else rv[2])[1][0] in out:
                    out.add(l)
                    changed = True
                elif k == 'C':
                    t = fn.term(b)
                    nm = fn.call_name(b) or ''
                    if _TRYB.search(nm) and t['a'] and t['a'][0][0] in ('c', 'm') and t['a'][0][1][0] in out:
                        out.add(l)
                        changed = True
    return out


def _is_negation(fn, l, carry):
    for (b, k, rv) in fn.defs.get(l, []):
        if k == 'A' and rv[0] == 'un' and rv[1] == 'Not':
            return True
    return False


def _reach_within(fn, comp, start, removed_edges):
    return fn.reach([start], removed_edges=removed_edges)


def _cycle_avoiding(fn, comp, B, avoid):
    """can control go from after B back to B inside comp without passing a block in avoid?"""
    seen, todo = set(), [s for s in fn.g.get(B, ()) if s in comp and s not in avoid]
    while todo:
        x = todo.pop()
        if x in seen:
            continue
        seen.add(x)
        if x == B:
            return True
        for s in fn.g.get(x, ()):
            if s in comp and s not in avoid and s not in seen:
                todo.append(s)
    return False


def _short_circuit(fx, rec, fn, fid, r3):
    """Under the assumption (op = AND, left = BOOL FALSE) - and (op = OR, left = BOOL TRUE) - no path of the Binary arm
    evaluates a second operand: every edge whose condition contradicts the assumption (a test of the operator or of the
    left value with another outcome) is removed, then no recursive evaluation may be reachable after the first one.
    Independent of how the tests are written (`op == And`, `match (op, &left)`, `matches!`)."""
    op_adt = fx.adts.get('trust_runtime::eval::ops::BinaryOp')
    val_adt = fx.adts.get('trust_runtime::value::types::Value')
    ex_adt = fx.adts.get('trust_runtime::eval::expr::ast::Expr')
    if not op_adt or not val_adt or not ex_adt:
        r3.bad('anchor-missing|adts', 'BinaryOp / Value / Expr not found')
        return
    op_names = [v['name'] for v in op_adt['variants']]
    val_names = [v['name'] for v in val_adt['variants']]
    ex_names = [v['name'] for v in ex_adt['variants']]
    # the Binary arm: target of the switch on discriminant(*expr)
    arm = None
    for b in fn.g:
        t = fn.term(b)
        if t['k'] != 'switch' or op_local(t['d']) is None:
            continue
        dd = fn.defs.get(op_local(t['d']), [])
        if len(dd) == 1 and dd[0][1] == 'A' and dd[0][2][0] == 'discr' and dd[0][2][1][0] == 2 and len(t['v']) >= 5:
            targets = {int(v): tb for v, tb in t['v']}
            all_t = set(targets.values()) | {t['o']}
            bi = ex_names.index('Binary') if 'Binary' in ex_names else None
            if bi in targets:
                arm = (targets[bi], all_t - {targets[bi]})
    if arm is None:
        r3.bad('anchor-missing|binary-arm', 'the Expr::Binary arm of eval_expr was not found')
        return
    entry, others = arm
    region = fn.reach([entry], avoid=others)
    selfc = [b for b, _, _ in fn.calls(lambda n: n == fid) if b in region]
    Lset = [b for b in selfc if b in fn.reach([entry], avoid=others | (set(selfc) - {b}))]
    Rset = [b for b in selfc if b not in Lset]
    if not Lset or not Rset:
        for var in ('And', 'Or'):
            r3.bad('short-circuit|%s' % var, 'the Binary arm does not evaluate its operands by two recursive calls (shape not recognised)', loc=fn.loc(entry))
        return
    # roles of locals: the operator, the left value
    roles, troles = {}, {}
    for l in range(len(rec['locals'])):
        if re.match(r'^&?(mut )?trust_runtime::eval::ops::BinaryOp$', rec['locals'][l]):
            roles[l] = 'op'
    for L in Lset:
        roles[fn.term(L)['d'][0]] = 'left'

    def role_place(pl):
        base, proj = pl[0], pl[1]
        if proj and isinstance(proj[0], list) and proj[0][0] == 'f' and (base, str(proj[0][1])) in troles:
            return troles[(base, str(proj[0][1]))]
        return roles.get(base)

    def role_op(o):
        return role_place(o[1]) if o[0] in ('c', 'm') else None
    changed = True
    while changed:
        changed = False
        for b in region:
            for st in fn.bbs[b]['s']:
                if st[0] != 'A' or st[1][1]:
                    continue
                d, rv = st[1][0], st[2]
                r = None
                if rv[0] == 'use':
                    r = role_op(rv[1])
                elif rv[0] == 'ref':
                    r = role_place(rv[2])
                elif rv[0] == 'agg' and rv[1] == 'tuple':
                    for i, o in enumerate(rv[2]):
                        ro = role_op(o)
                        if ro and troles.get((d, str(i))) != ro:
                            troles[(d, str(i))] = ro
                            changed = True
                if r and roles.get(d) != r and d not in roles:
                    roles[d] = r
                    changed = True
            t = fn.term(b)
            if t['k'] == 'call' and _TRYB.search(fn.call_name(b) or '') and t['a'] and not t['d'][1]:
                r = role_op(t['a'][0])
                if r and t['d'][0] not in roles:
                    roles[t['d'][0]] = r
                    changed = True
    # tests
    op_sw, val_sw, pay_sw, op_eq = [], [], [], []
    for b in region:
        t = fn.term(b)
        if t['k'] == 'switch' and t['d'][0] in ('c', 'm'):
            base, proj = t['d'][1]
            src = None
            if not proj:
                dd = fn.defs.get(base, [])
                if len(dd) == 1 and dd[0][1] == 'A':
                    rv = dd[0][2]
                    if rv[0] == 'discr':
                        r = role_place(rv[1])
                        if r == 'op':
                            op_sw.append(b)
                        elif r == 'left':
                            val_sw.append(b)
                        continue
                    if rv[0] == 'use' and rv[1][0] in ('c', 'm'):
                        src = rv[1][1]
            else:
                src = [base, proj]
            if src and role_place(src) == 'left' and any(isinstance(e, list) and e[0] == 'd' and e[1] == 'Bool' for e in src[1]):
                pay_sw.append(b)
    for b, nm, t in fn.calls(lambda n: re.search(r'eval::ops::BinaryOp as core::cmp::PartialEq>::(eq|ne)$', n) is not None or n == 'core::cmp::PartialEq::ne'):
        if b not in region:
            continue
        if nm == 'core::cmp::PartialEq::ne' and not any('BinaryOp' in g for g in (t['f'].get('ga') or [])):
            continue
        var = _promoted_variant(rec, fn, t['a'][1]) or _promoted_variant(rec, fn, t['a'][0])
        if var:
            op_eq.append((b, nm.endswith('::eq'), var))
    r3.note('Binary arm: %d first / %d later operand evaluations; operator tests %d (switch) + %d (==); left-value tests %d (variant) + %d (BOOL payload)' % (
        len(Lset), len(Rset), len(op_sw), len(op_eq), len(val_sw), len(pay_sw))) if hasattr(r3, 'note') else None

    def sw_cut(b, names, want):
        """edges of the discriminant switch at b that contradict `variant == want`"""
        t = fn.term(b)
        cut, keep = set(), set()
        explicit = set()
        for v, tb in t['v']:
            v = int(v)
            explicit.add(names[v] if v < len(names) else None)
            (keep if (v < len(names) and names[v] == want) else cut).add((b, tb))
        if t.get('o') is not None:
            (cut if want in explicit else keep).add((b, t['o']))
        return cut - keep

    for var, lit in (('And', 0), ('Or', 1)):
        key = 'short-circuit|%s' % var
        cut = set()
        for b in op_sw:
            cut |= sw_cut(b, op_names, var)
        for b in val_sw:
            cut |= sw_cut(b, val_names, 'Bool')
        for b in pay_sw:
            t = fn.term(b)
            keep, c2, explicit = set(), set(), set()
            for v, tb in t['v']:
                explicit.add(int(v))
                (keep if int(v) == lit else c2).add((b, tb))
            if t.get('o') is not None:
                (c2 if lit in explicit else keep).add((b, t['o']))
            cut |= (c2 - keep)
        for b, is_eq, k in op_eq:
            pos, neg, _ = call_result_edges(fn, b)
            if not is_eq:
                pos, neg = neg, pos
            cut |= (neg if k == var else pos)
        alive = fn.reach([entry], avoid=others, removed_edges=cut)
        offending = None
        for L in Lset:
            if L not in alive:
                continue
            after = fn.reach_after(L, removed_edges=cut, avoid=others)
            hit = [r for r in selfc if r in after]
            if hit:
                offending = (L, hit[0])
                break
        if not any(L in alive for L in Lset):
            r3.bad(key, 'under op = %s no evaluation of the left operand is reachable (shape not recognised)' % var.upper(), loc=fn.loc(entry))
        elif offending:
            r3.bad(key, 'with op = %s and the left operand %s the right operand is still evaluated (line %d): the right side\'s side effects and faults leak (IEC short-circuit evaluation)' % (
                var.upper(), 'FALSE' if var == 'And' else 'TRUE', fn.line(offending[1])), loc=fn.loc(offending[1]))
        else:
            r3.ok(key, loc=fn.loc(Lset[0]))
