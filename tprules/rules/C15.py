"""C15 — formatting never changes the program and is idempotent (thin).

Equality of the token sequences before and after formatting, and idempotence, are value-level and not decided
(whether two glued tokens re-lex as one depends on running the lexer; alignment and wrapping are column
arithmetic).  Decided statically, each a necessary condition: (R1) token re-emission: in the line formatter every
loop iteration appends exactly one string that is the token's own source text or its ASCII case conversion (the
conversion only for keywords), and otherwise only single spaces; (R2) line correspondence: range and on-type
formatting address the formatted result by *source* line, so every pass whose output they index keeps one output
group per source line (exactly one push per iteration, on every path) and the edit builder is fed with that
per-source-line result, not with a re-split of the joined text; (R3) verbatim lines: a line inside a block
comment is copied unchanged, a line with a line comment or pragma only gets a new indentation (no token
re-emission on those lines).
"""
import re

from ..cfg import F, op_local, place_fields
from ..gates import call_result_edges, guarded, test_edges, compare_seeds
from ..prov import origins, operand_origins
from ..dep import deps

CRATES = ['trust_lsp_bin', 'trust_runtime', 'trust_syntax']
NODEFAULT_OK = False
EXPLANATION = __doc__

M = 'trust_lsp_bin::handlers::formatting::'
PUSH = re.compile(r'alloc::vec::Vec::<T(, A)?>::push$')
PUSH_STR = re.compile(r'alloc::string::String::push_str$')
PUSH_CH = re.compile(r'alloc::string::String::push$')
NEXT = re.compile(r'::next$')


def _loops_with(fn, blocks):
    return [set(c) for c in fn.sccs() if len(c) > 1 and any(b in c for b in blocks)]


def _headers(fn, comp):
    """the iterator `next` call blocks of a loop: passing one starts the next iteration"""
    return {b for b in comp if NEXT.search(fn.call_name(b) or '')}


def _once_per_iteration(fn, pushes, rule, key, what, outer_only=True):
    """every iteration of the (outermost) loop containing `pushes` pushes exactly once on every path"""
    comps = _loops_with(fn, pushes)
    if not comps:
        rule.bad(key, '%s: no loop around the pushes (shape not recognised)' % what, loc=fn.loc(pushes[0]) if pushes else fn.loc(0))
        return
    comp = max(comps, key=len)
    # the loop's own iterator step: the `next` that dominates every other iterator step of the component
    hs = _headers(fn, comp)
    heads = {h for h in hs if all(fn.dominates(h, o) for o in hs)}
    if not heads:
        rule.bad(key, '%s: the loop has no iterator step (shape not recognised)' % what, loc=fn.loc(min(comp)))
        return
    inside = [p for p in pushes if p in comp]
    # (i) no iteration without a push: no cycle through a header that avoids all pushes
    for c in fn.sccs(removed_nodes=set(inside)):
        if len(c) > 1 and set(c) & heads:
            rule.bad(key, '%s: an iteration can finish without producing its output (a source line would get no output group and every later line shifts)' % what, loc=fn.loc(min(set(c) & heads)))
            return
    # (ii) no iteration with two pushes: from a push, no other push before the next header
    for p in inside:
        again = [q for q in inside if q in fn.reach(list(fn.g.get(p, ())), avoid=heads)]
        if again:
            rule.bad(key, '%s: one iteration can push more than once (line %d, then line %d): one source line then yields several entries of the result that range/on-type formatting index by source line, so they replace lines with text of other lines' % (
                what, fn.line(p), fn.line(again[0])), loc=fn.loc(again[0]))
            return
    rule.ok(key, loc=fn.loc(inside[0]) if inside else None, detail='%d push sites, one per iteration' % len(inside))


def _vec_pushes(fn, elem_pred):
    out = []
    for b, nm, t in fn.calls(lambda n: PUSH.search(n) is not None):
        ga = t['f'].get('ga') or []
        if ga and elem_pred(ga[0]):
            out.append(b)
    return out


def _kind_tests(fn):
    """calls comparing two TokenKind values: `==` resolves to the derived eq, `!=` to the provided PartialEq::ne"""
    out = []
    for b, nm, t in fn.calls(lambda n: n.endswith('::eq') or n.endswith('::ne')):
        if re.search(r'TokenKind as core::cmp::PartialEq>::(eq|ne)$', nm) or (nm == 'core::cmp::PartialEq::ne' and any('TokenKind' in g for g in (t['f'].get('ga') or []))):
            out.append((b, nm, t))
    return out


def _relex_verified(ctx, r1):
    """format_line_tokens returns the glued line only behind the true edge of the re-lex comparison; its other result is
    the join that keeps the source's adjacency (spacing style None)"""
    fx = ctx.fx
    rec = fx.fns.get(M + 'format_line_tokens')
    r1.saw()
    if rec is None or M + 'join_line_tokens' not in fx.fns:
        r1.bad('relex-verified', 'format_line_tokens / join_line_tokens not found: nothing verifies that removing blanks did not merge tokens (`TO INT#10` -> `TOINT#10`)', loc=None)
        return
    fn = F(rec)
    joins = fn.calls(lambda n: n == M + 'join_line_tokens')
    checks = fn.calls(lambda n: n in fx.fns and fx.fns[n]['locals'][0] == 'bool' and 'trust_syntax::lexer::lex' in ctx.cg.reach([n]))
    if not joins or not checks:
        r1.bad('relex-verified', 'format_line_tokens does not re-lex the joined line: a removed blank can merge two tokens into another one (`TO INT#10` -> `TOINT#10`, `a . . b` -> `a..b`)', loc=fn.loc(0))
        return
    pos = set()
    for b, nm, t in checks:
        p_, n_, _ = call_result_edges(fn, b)
        # the verified text is the joined line
        if any(c[1] == M + 'join_line_tokens' for c in deps(fn, t['a'][0]).calls):
            pos |= p_
    bad = None
    n_fallback = 0
    for b, nm, t in joins:
        style = t['a'][3] if len(t['a']) > 3 else None
        is_none = False
        if style is not None:
            d = deps(fn, style)
            is_none = not d.args and not d.calls and any('None' in k for k in d.consts) or (style[0] == 'k' and 'None' in str(style[2]))
            if not is_none and style[0] in ('c', 'm'):
                for (db, dk, drv) in fn.defs.get(style[1][0], []):
                    if dk == 'A' and drv[0] == 'agg' and str(drv[1]).endswith('Option::None'):
                        is_none = True
        if is_none:
            n_fallback += 1
            continue
        # a styled join: every return of its value must be behind the verified edge
        for rb in fn.g:
            for st in fn.bbs[rb]['s']:
                if st[0] == 'A' and st[1][0] == 0 and not st[1][1]:
                    if any(c[0] == b for c in deps(fn, st[2][1] if st[2][0] == 'use' else ['c', [0, []]]).calls) and not guarded(fn, rb, pos):
                        bad = rb
    if bad is not None or not pos:
        r1.bad('relex-verified', 'format_line_tokens can return the glued line without the re-lex comparison having succeeded', loc=fn.loc(bad if bad is not None else 0))
    elif not n_fallback:
        r1.bad('relex-verified', 'format_line_tokens has no fallback that keeps the source\'s token separation', loc=fn.loc(0))
    else:
        r1.ok('relex-verified', loc=fn.loc(checks[0][0]), detail='%d styled join(s) behind the verified edge, %d adjacency-preserving fallback(s)' % (len(joins) - n_fallback, n_fallback))
    # the comparison looks at token kinds
    r1.saw()
    cid = checks[0][1]
    bodies = [cid] + list(fx.closures_of(cid))
    if any(F(fx.fns[x]).calls(lambda n: re.search(r'TokenKind as core::cmp::PartialEq>::eq$', n) is not None) for x in bodies if x in fx.fns):
        r1.ok('relex-compares-kinds')
    else:
        r1.bad('relex-compares-kinds', '%s does not compare token kinds' % cid.split('::')[-1], loc='%s:%d' % (fx.fns[cid]['file'], fx.fns[cid]['line']))


def run(ctx):
    fx = ctx.fx
    # ------------------------------------------------------------------ R1
    r1 = ctx.rule('C15.R1', 'token re-emission: each token contributes exactly its own text (case-converted only if it is a keyword); the only other output is a single space', floor=4)
    # the loop that emits the token texts: `join_line_tokens` (since the glue verification was added), formerly the body
    # of `format_line_tokens` itself
    rec = fx.fns.get(M + 'join_line_tokens') or fx.fns.get(M + 'format_line_tokens')
    if rec is None:
        r1.bad('anchor-missing|format_line_tokens', 'line formatter not found')
    else:
        fn = F(rec)
        r1.saw(len(fn.g))
        ps = fn.calls(lambda n: PUSH_STR.search(n) is not None)
        pc = fn.calls(lambda n: PUSH_CH.search(n) is not None)
        # every push_str argument is the token's source slice (or its ASCII case conversion)
        badsrc = []
        conv_blocks = []
        for b, nm, t in ps:
            d = deps(fn, t['a'][1])
            names = {c[1] for c in d.calls}
            sliced = any(re.search(r'Index<.*> for str>::index$|str::traits::<impl core::ops::index::Index<I> for str>::index$', n) for n in names)
            conv = [n for n in names if re.search(r'to_ascii_(upper|lower)case$', n)]
            foreign = [n for n in names if not re.search(r'::index$|to_ascii_(upper|lower)case$|Deref>::deref$|From<.*>>::from$|::as_str$|Into<.*>>::into$|TextSize|TextRange|::start$|::end$|::next$|::into_iter$|::iter$', n)]
            if not sliced or foreign or any(k for k in d.consts if k.startswith('"') and k.strip('"').strip() != ''):
                badsrc.append((b, foreign))
            if conv:
                conv_blocks.append(b)
        if ps and not badsrc:
            r1.ok('text-from-token', detail='%d push_str sites' % len(ps))
        else:
            r1.bad('text-from-token', 'the line formatter appends text that is not the current token\'s own source slice%s: the formatted line no longer carries the same tokens' % (
                (' (via %s)' % ', '.join(x.split('::')[-1] for x in badsrc[0][1][:2])) if badsrc and badsrc[0][1] else ''), loc=fn.loc(badsrc[0][0]) if badsrc else fn.loc(0))
        # case conversion only for keywords
        kw = fn.calls(lambda n: n.endswith('TokenKind::is_keyword'))
        r1.saw()
        if conv_blocks:
            okc = False
            if kw:
                pos, neg, _ = call_result_edges(fn, kw[0][0])
                okc = bool(pos) and all(guarded(fn, b, pos) for b in conv_blocks)
            if okc:
                r1.ok('case-only-keywords')
            else:
                r1.bad('case-only-keywords', 'a token\'s text is case-converted on a path that did not establish is_keyword(): identifiers or literals would change spelling', loc=fn.loc(conv_blocks[0]))
        else:
            r1.ok('case-only-keywords', detail='no case conversion')
        # the only character pushed is a space
        r1.saw()
        badc = [b for b, nm, t in pc if not (t['a'][1][0] == 'k' and t['a'][1][2].strip().strip("const ").strip("'") in (' ', ''))]
        if not badc:
            r1.ok('separator-is-space')
        else:
            r1.bad('separator-is-space', 'the line formatter appends a character other than a single space between tokens', loc=fn.loc(badc[0]))
        # exactly one text push per token
        r1.saw()
        _once_per_iteration(fn, [b for b, _, _ in ps], r1, 'one-text-per-token', 'format_line_tokens')
        _relex_verified(ctx, r1)

    # ------------------------------------------------------------------ R2
    r2 = ctx.rule('C15.R2', 'line correspondence: what range/on-type formatting index by source line has exactly one group per source line', floor=4)
    fdl = fx.fns.get(M + 'format_document_lines')
    if fdl is None:
        r2.bad('anchor-missing|format_document_lines', 'the per-source-line formatter was not found')
    else:
        fn = F(fdl)
        r2.saw(len(fn.g))
        pushes = _vec_pushes(fn, lambda t: t == 'alloc::string::String')
        _once_per_iteration(fn, pushes, r2, 'one-group-per-line|format_document_lines', 'format_document_lines')
    wl = fx.fns.get(M + 'wrap_long_lines')
    if wl is None:
        r2.bad('anchor-missing|wrap_long_lines', 'wrap_long_lines not found')
    else:
        fn = F(wl)
        r2.saw(len(fn.g))
        ret = wl['locals'][0]
        m = re.match(r'alloc::vec::Vec<(.*)>$', ret)
        elem = m.group(1) if m else None
        pushes = _vec_pushes(fn, lambda t: t == elem) if elem else []
        if not pushes:
            r2.bad('one-group-per-line|wrap_long_lines', 'wrap_long_lines does not build its result by pushing one entry per input line (shape not recognised)', loc=fn.loc(0))
        else:
            _once_per_iteration(fn, pushes, r2, 'one-group-per-line|wrap_long_lines', 'wrap_long_lines')
    # in-place passes keep the count: they take &mut [String], never a Vec they could grow
    for name in ('align_var_block_colons', 'align_assignment_ops'):
        rec = fx.fns.get(M + name)
        r2.saw()
        if rec is None:
            r2.bad('anchor-missing|%s' % name, '%s not found' % name)
            continue
        fn = F(rec)
        grows = [b for b, nm, t in fn.calls(lambda n: re.search(r'Vec::<T(, A)?>::(push|insert|remove|truncate|drain|retain|extend)', n) is not None)
                 if any(o == ('arg', 1) for o in operand_origins(fn, t['a'][0]))]
        if rec['locals'][1].startswith('&mut [') and not grows:
            r2.ok('count-preserving|%s' % name)
        elif grows:
            r2.bad('count-preserving|%s' % name, '%s changes the number of lines it was given' % name, loc=fn.loc(grows[0]))
        else:
            r2.ok('count-preserving|%s' % name, detail='takes %s' % rec['locals'][1])
    # the edit builder is fed with the per-source-line result
    fle = M + 'format_lines_edit'
    for name in ('range_formatting', 'on_type_formatting'):
        rec = fx.fns.get(M + name)
        r2.saw()
        if rec is None:
            r2.bad('anchor-missing|%s' % name, '%s not found' % name)
            continue
        fn = F(rec)
        cs = fn.calls(lambda n: n == fle)
        if not cs:
            r2.bad('edit-source|%s' % name, '%s no longer builds its edit with format_lines_edit (shape not recognised)' % name, loc=fn.loc(0))
            continue
        b, nm, t = cs[0]
        d = deps(fn, t['a'][1])
        names = {c[1] for c in d.calls}
        if M + 'format_document_lines' in names and not any(re.search(r'str>::split|::lines$|split_terminator', n) for n in names):
            r2.ok('edit-source|%s' % name, loc=fn.loc(b))
        else:
            r2.bad('edit-source|%s' % name, '%s hands format_lines_edit lines that do not come from the per-source-line result (format_document_lines): after a long line was wrapped, output line k is no longer source line k' % name, loc=fn.loc(b))
    # format_lines_edit slices by the given source line numbers
    rec = fx.fns.get(fle)
    if rec is not None:
        fn = F(rec)
        r2.saw()
        idx = fn.calls(lambda n: re.search(r'Index<.*> for \[T\]>::index$|SliceIndex<\[T\]>>::index$', n) is not None)
        ok = False
        for b, nm, t in idx:
            d = deps(fn, t['a'][1])
            if {3, 4} <= d.args:
                ok = True
        if ok:
            r2.ok('slice-by-source-lines')
        else:
            r2.bad('slice-by-source-lines', 'format_lines_edit does not take exactly the groups start_line..=end_line', loc=fn.loc(0))

    # ------------------------------------------------------------------ R3
    r3 = ctx.rule('C15.R3', 'verbatim lines: block-comment lines are copied unchanged; comment/pragma lines are only re-indented (no token re-emission)', floor=2)
    if fdl is not None:
        fn = F(fdl)
        flt = set(fn.blocks_calling(lambda n: n == M + 'format_line_tokens'))
        pushes = _vec_pushes(fn, lambda t: t == 'alloc::string::String')
        # classify each push by what its value depends on
        verb, tok = [], []
        for p in pushes:
            t = fn.term(p)
            d = deps(fn, t['a'][1])
            names = {c[1] for c in d.calls}
            if M + 'format_line_tokens' in names:
                tok.append(p)
            else:
                verb.append((p, names))
        r3.saw(len(pushes))
        # the token-formatted push is reachable only when the line has neither a line comment nor a pragma and is not in a block comment:
        # i.e. every path from the block-comment / comment / pragma flag being true avoids format_line_tokens
        # the three line masks, found structurally: the Vec<bool> written under `token.kind == TokenKind::<V>`
        from ..util import promoted_variant
        KINDS = {'BlockComment': 'line_in_block_comment', 'LineComment': 'line_has_line_comment', 'Pragma': 'line_has_pragma'}
        mask_vec = {}
        for b, nm, t in fn.calls(lambda n: re.search(r'TokenKind as core::cmp::PartialEq>::eq$', n) is not None):
            var = promoted_variant(fdl, fn, t['a'][1]) or promoted_variant(fdl, fn, t['a'][0])
            if var not in KINDS:
                continue
            pos, neg, _ = call_result_edges(fn, b)
            region = fn.reach([x for (_, x) in pos], removed_edges=neg) if pos else set()
            nxt = {x for x in region if NEXT.search(fn.call_name(x) or '') and 'Token' in ' '.join(fn.term(x)['f'].get('ga') or [])}
            region = fn.reach([x for (_, x) in pos], avoid=nxt) if pos else set()
            for rb in region:
                cn = fn.call_name(rb) or ''
                if re.search(r'IndexMut<.*>::index_mut$|index_mut$|::get_mut$', cn):
                    d = deps(fn, fn.term(rb)['a'][0])
                    for l in d.locals:
                        if fn.local_ty(l).startswith('alloc::vec::Vec<bool'):
                            mask_vec.setdefault(KINDS[var], set()).add(l)
        flags = {}
        for l, dl in fn.defs.items():
            if fn.local_ty(l) != 'bool':
                continue
            for (b, k, pl) in dl:
                if k == 'A' and pl[0] == 'use' and pl[1][0] in ('c', 'm'):
                    src = deps(fn, pl[1])
                    for n, vecs in mask_vec.items():
                        if vecs & src.locals and len([m for m, v2 in mask_vec.items() if v2 & src.locals]) == 1:
                            flags.setdefault(n, set()).add(l)
                    if not mask_vec:
                        for n, plc in fn.r['names']:
                            if not plc[1] and plc[0] in src.locals and n in KINDS.values():
                                flags.setdefault(n, set()).add(l)
        okv = True
        missing = []
        for n in ('line_in_block_comment', 'line_has_line_comment', 'line_has_pragma'):
            ls = flags.get(n)
            if not ls:
                missing.append(n)
                continue
            seeds = {l: ('bool', True) for l in ls}
            pos, neg, _ = test_edges(fn, seeds)
            if not neg or not all(guarded(fn, b, neg) for b in flt):
                okv = False
                r3.bad('verbatim|%s' % n, 'a line flagged %s can still be rebuilt from its tokens: its comment / pragma text is not a token of the line and is dropped or moved' % n, loc=fn.loc(min(flt)) if flt else fn.loc(0))
        if missing:
            r3.bad('verbatim|flags', 'the line masks %s were not found (shape not recognised)' % missing, loc=fn.loc(0))
        elif okv:
            r3.ok('verbatim|flags', detail='token re-emission is behind the three not-flagged edges')
        # every token that spans lines marks its lines verbatim: a comparison of two line indices (both from line_index)
        # whose "spans lines" outcome reaches the write of the block-comment mask, without a restriction to one token
        # kind other than Whitespace in between
        r3.saw()
        bc = mask_vec.get('line_in_block_comment', set())

        def span_pred(op, a, c, bb):
            if op not in ('Gt', 'Lt', 'Ne'):
                return None
            oa, oc = operand_origins(fn, a), operand_origins(fn, c)
            if any(o[0] == 'call' and o[2] == M + 'line_index' for o in oa) and any(o[0] == 'call' and o[2] == M + 'line_index' for o in oc):
                return True
            return None
        sseeds = compare_seeds(fn, span_pred)
        spos = test_edges(fn, sseeds)[0] if sseeds else set()
        marks = [rb for rb in fn.g if re.search(r'index_mut$|::get_mut$', fn.call_name(rb) or '') and (deps(fn, fn.term(rb)['a'][0]).locals & bc)]
        nxt_all = {x for x in fn.g if NEXT.search(fn.call_name(x) or '') and 'Token' in ' '.join(fn.term(x)['f'].get('ga') or [])}
        reach_m = fn.reach([x for (_, x) in spos], avoid=nxt_all) if spos else set()
        if spos and marks and any(m_ in reach_m for m_ in marks):
            # a token of no particular kind must get there: with the "is kind K" outcomes of every token-kind test
            # (other than the exclusion of Whitespace) removed, the marking is still reachable from the span test
            cut = set()
            kinds_between = set()
            for b2, nm, t in _kind_tests(fn):
                var = promoted_variant(fdl, fn, t['a'][1]) or promoted_variant(fdl, fn, t['a'][0])
                if var in ('Whitespace', None):
                    continue
                p_, n_, _ = call_result_edges(fn, b2)
                cut |= (p_ if nm.endswith('::eq') else n_)
                if b2 in reach_m:
                    kinds_between.add(var)
            still = fn.reach([x for (_, x) in spos], avoid=nxt_all, removed_edges=cut)
            if not any(m_ in still for m_ in marks):
                r3.bad('multi-line-token-lines', 'after the "spans several lines" test the verbatim marking is still restricted to token kind %s: the lines of other multi-line tokens are rebuilt from their (absent) tokens' % sorted(kinds_between), loc=fn.loc(marks[0]))
            else:
                r3.ok('multi-line-token-lines', loc=fn.loc(marks[0]))
        else:
            r3.bad('multi-line-token-lines', 'no token that merely spans several lines (a multi-line pragma, an unterminated comment) marks its lines as verbatim: their continuation lines carry no token and are emitted empty, the text is lost', loc=fn.loc(0))
        # block-comment lines: pushed value depends on the source slice only
        r3.saw()
        plain = [p for p, names in verb if any(re.search(r'str>::index$|Index<I> for str>::index$', n) for n in names) and not any('format!' in n or n.endswith('fmt::format') or n.endswith('alloc::fmt::format::format_inner') for n in names)]
        if plain:
            r3.ok('block-comment-copied', loc=fn.loc(plain[0]))
        else:
            r3.bad('block-comment-copied', 'no push of an unmodified source line found (block-comment lines must be copied as they are)', loc=fn.loc(0))

    # ------------------------------------------------------------------ R5 layout passes find their positions in the token stream
    r5 = ctx.rule('C15.R5', 'layout passes address positions by tokens: the alignment column is the start of a Colon token, long lines break at Comma tokens (a `:` or `,` inside a string, time literal or error token is part of that token)', floor=2)
    from ..util import promoted_variant as _pv5
    for name, kind, what in (('find_type_colon', 'Colon', 'the declaration colon is searched in the text of the line: a `:` inside a string or a TOD / DT literal of an initialiser is taken for it and the padding is inserted into the literal'),
                             ('wrap_long_lines', 'Comma', 'long lines are split at `,` characters: a comma inside a token that is not masked (a string with an invalid escape lexes as an error token) is broken across lines')):
        rec5 = fx.fns.get(M + name)
        r5.saw()
        if rec5 is None:
            r5.bad('anchor-missing|%s' % name, '%s not found' % name)
            continue
        f5 = F(rec5)
        bodies = [f5] + [F(fx.fns[c]) for c in fx.closures_of(M + name) if c in fx.fns]
        lexes = any(x.calls(lambda n: n == 'trust_syntax::lexer::lex') for x in bodies)
        kinds = set()
        for x in bodies:
            for b, nm, t in _kind_tests(x):
                kinds.add(_pv5(x.r, x, t['a'][1]) or _pv5(x.r, x, t['a'][0]))
        textual = [(x, b) for x in bodies for b, nm, t in x.calls(lambda n: re.search(r'<impl str>::(split|splitn|rsplit|split_terminator|find|rfind|match_indices|as_bytes|bytes|char_indices)$', n) is not None)]
        key = 'by-token|%s' % name
        if lexes and kind in kinds and not textual:
            r5.ok(key, loc=f5.loc(0))
        elif textual:
            r5.bad(key, '%s (%s)' % (what, (textual[0][0].call_name(textual[0][1]) or '').split('::')[-1]), loc=textual[0][0].loc(textual[0][1]))
        else:
            r5.bad(key, what, loc=f5.loc(0))

    # ------------------------------------------------------------------ R4 web IDE formatter
    r4 = ctx.rule('C15.R4', 'web IDE formatter: lines covered by a multi-line block comment are copied unchanged; every other push is behind the not-in-comment edge', floor=2)
    W = 'trust_runtime::web::ide::format_structured_text_document'
    rec = fx.fns.get(W)
    if rec is None:
        r4.bad('anchor-missing|format_structured_text_document', 'web IDE formatter not found')
        return
    fn = F(rec)
    r4.saw(len(fn.g))
    pushes = _vec_pushes(fn, lambda t: t == 'alloc::string::String')
    rebuilt, verbatim = [], []
    for p in pushes:
        d = deps(fn, fn.term(p)['a'][1])
        names = {c[1] for c in d.calls}
        if any(re.search(r'::trim(_start|_end|_end_matches|_start_matches|_matches)?$|fmt::format|format_inner|String::new$|::repeat$', n) for n in names):
            rebuilt.append(p)
        else:
            verbatim.append(p)
    # the comment mask: a boolean that depends on a lexer-based line marker (a call that reaches trust_syntax's lexer)
    cg = ctx.cg
    markers = set()
    for b, nm, t in fn.calls(lambda n: n in fx.fns):
        if any(x.startswith('trust_syntax::lexer::') or 'logos::' in x for x in cg.reach([nm])):
            markers.add(b)
    seeds = {}
    for l, dl in fn.defs.items():
        if fn.local_ty(l) != 'bool':
            continue
        for (b, k, pl) in dl:
            src = None
            if k == 'A' and pl[0] == 'use' and pl[1][0] in ('c', 'm'):
                src = deps(fn, pl[1])
            elif k == 'C':
                src = deps(fn, ['c', [l, []]])
            if src is not None and any(cb in markers for cb, _ in src.calls):
                seeds[l] = ('bool', True)
    if not markers or not seeds:
        r4.bad('comment-mask', 'the web formatter has no lexer-based mask of the lines inside multi-line block comments: it trims and re-indents comment text (the comment token changes) and lets comment lines drive the indentation', loc=fn.loc(0))
    else:
        pos, neg, _ = test_edges(fn, seeds)
        r4.saw()
        if neg and rebuilt and all(guarded(fn, p, neg) for p in rebuilt):
            r4.ok('comment-mask', loc=fn.loc(rebuilt[0]), detail='%d rebuilding pushes behind the not-in-comment edge' % len(rebuilt))
        else:
            r4.bad('comment-mask', 'a line inside a multi-line block comment can still be trimmed / re-indented', loc=fn.loc(rebuilt[0]) if rebuilt else fn.loc(0))
        r4.saw()
        if pos and any(guarded(fn, p, pos) for p in verbatim):
            r4.ok('comment-lines-copied', loc=fn.loc(verbatim[0]))
        else:
            r4.bad('comment-lines-copied', 'no unmodified copy of the line on the in-comment edge', loc=fn.loc(0))

    # the marker itself: the lexer pass runs on every path (no shortcut on the source text), and the marking is not
    # restricted to one token kind (only Whitespace may be excluded)
    mk = None
    for b, nm, t in fn.calls(lambda n: n in fx.fns and n.startswith('trust_runtime::web::ide::')):
        if any(x == 'trust_syntax::lexer::lex' for x in cg.reach([nm])):
            mk = nm
    r4.saw()
    if mk is None:
        r4.bad('marker|lexer-pass', 'the line marker of the web formatter was not found', loc=fn.loc(0))
        return
    mf = F(fx.fns[mk])
    lexb = set(mf.blocks_calling(lambda n: n == 'trust_syntax::lexer::lex'))
    rets = [b for b in mf.g if mf.term(b)['k'] == 'ret']
    ok_all, path = mf.must_pass_from([0], lexb) if lexb else (False, None)
    if lexb and ok_all:
        r4.ok('marker|lexer-pass', loc=mf.loc(min(lexb)))
    else:
        r4.bad('marker|lexer-pass', '%s can return without running the lexer: a textual shortcut decides which sources have multi-line tokens (a `/* */` comment or a pragma has no `(*`)' % mk.split('::')[-1], loc=mf.loc(0))
    r4.saw()
    from ..util import promoted_variant as _pv
    restrict = set()
    for b, nm, t in _kind_tests(mf):
        var = _pv(fx.fns[mk], mf, t['a'][1]) or _pv(fx.fns[mk], mf, t['a'][0])
        restrict.add(var)
    if restrict - {'Whitespace'}:
        r4.bad('marker|all-multi-line-tokens', 'the line marker looks at tokens of kind %s only: the continuation lines of other multi-line tokens (pragmas, unterminated comments) are trimmed and re-indented' % sorted(x for x in restrict if x != 'Whitespace'), loc=mf.loc(0))
    else:
        r4.ok('marker|all-multi-line-tokens')
