"""C15 — formatting never changes the program and is idempotent (thin).

Equality of the token sequences before and after formatting, and idempotence, are value-level and not decided
(whether two glued tokens re-lex as one depends on running the lexer; alignment and wrapping are column
arithmetic).  Decided statically, each a necessary condition: (R1) token re-emission: in the line formatter every
loop iteration appends exactly one string that is the token's own source text or its ASCII case conversion (the
conversion only for keywords), and otherwise only single spaces; (R2) line correspondence: range and on-type
formatting address the formatted result by *source* line, so every pass whose output they index keeps one output
group per source line (exactly one push per iteration, on every path) and the edit builder is fed with that
per-source-line result, not with a re-split of the joined text; (R3) verbatim lines: a line inside a block
comment is copied unchanged, a line with a line comment or pragma only gets a new indentation (no token
re-emission on those lines).
"""
import re

from ..cfg import F, op_local, place_fields
from ..gates import call_result_edges, guarded, test_edges
from ..prov import origins, operand_origins
from ..dep import deps

CRATES = ['trust_lsp_bin', 'trust_runtime', 'trust_syntax']
NODEFAULT_OK = False
EXPLANATION = __doc__

M = 'trust_lsp_bin::handlers::formatting::'
PUSH = re.compile(r'alloc::vec::Vec::<T(, A)?>::push$')
PUSH_STR = re.compile(r'alloc::string::String::push_str$')
PUSH_CH = re.compile(r'alloc::string::String::push$')
NEXT = re.compile(r'::next$')


def _loops_with(fn, blocks):
    return [set(c) for c in fn.sccs() if len(c) > 1 and any(b in c for b in blocks)]


def _headers(fn, comp):
    """the iterator `next` call blocks of a loop: passing one starts the next iteration"""
    return {b for b in comp if NEXT.search(fn.call_name(b) or '')}


def _once_per_iteration(fn, pushes, rule, key, what, outer_only=True):
    """every iteration of the (outermost) loop containing `pushes` pushes exactly once on every path"""
    comps = _loops_with(fn, pushes)
    if not comps:
        rule.bad(key, '%s: no loop around the pushes (shape not recognised)' % what, loc=fn.loc(pushes[0]) if pushes else fn.loc(0))
        return
    comp = max(comps, key=len)
    # the loop's own iterator step: the `next` that dominates every other iterator step of the component
    hs = _headers(fn, comp)
    heads = {h for h in hs if all(fn.dominates(h, o) for o in hs)}
    if not heads:
        rule.bad(key, '%s: the loop has no iterator step (shape not recognised)' % what, loc=fn.loc(min(comp)))
        return
    inside = [p for p in pushes if p in comp]
    # (i) no iteration without a push: no cycle through a header that avoids all pushes
    for c in fn.sccs(removed_nodes=set(inside)):
        if len(c) > 1 and set(c) & heads:
            rule.bad(key, '%s: an iteration can finish without producing its output (a source line would get no output group and every later line shifts)' % what, loc=fn.loc(min(set(c) & heads)))
            return
    # (ii) no iteration with two pushes: from a push, no other push before the next header
    for p in inside:
        again = [q for q in inside if q in fn.reach(list(fn.g.get(p, ())), avoid=heads)]
        if again:
            rule.bad(key, '%s: one iteration can push more than once (line %d, then line %d): one source line then yields several entries of the result that range/on-type formatting index by source line, so they replace lines with text of other lines' % (
                what, fn.line(p), fn.line(again[0])), loc=fn.loc(again[0]))
            return
    rule.ok(key, loc=fn.loc(inside[0]) if inside else None, detail='%d push sites, one per iteration' % len(inside))


def _vec_pushes(fn, elem_pred):
    out = []
    for b, nm, t in fn.calls(lambda n: PUSH.search(n) is not None):
        ga = t['f'].get('ga') or []
        if ga and elem_pred(ga[0]):
            out.append(b)
    return out


def run(ctx):
    fx = ctx.fx
    # ------------------------------------------------------------------ R1
    r1 = ctx.rule('C15.R1', 'token re-emission: each token contributes exactly its own text (case-converted only if it is a keyword); the only other output is a single space', floor=4)
    rec = fx.fns.get(M + 'format_line_tokens')
    if rec is None:
        r1.bad('anchor-missing|format_line_tokens', 'line formatter not found')
    else:
        fn = F(rec)
        r1.saw(len(fn.g))
        ps = fn.calls(lambda n: PUSH_STR.search(n) is not None)
        pc = fn.calls(lambda n: PUSH_CH.search(n) is not None)
        # every push_str argument is the token's source slice (or its ASCII case conversion)
        badsrc = []
        conv_blocks = []
        for b, nm, t in ps:
            d = deps(fn, t['a'][1])
            names = {c[1] for c in d.calls}
            sliced = any(re.search(r'Index<.*> for str>::index$|str::traits::<impl core::ops::index::Index<I> for str>::index$', n) for n in names)
            conv = [n for n in names if re.search(r'to_ascii_(upper|lower)case$', n)]
            foreign = [n for n in names if not re.search(r'::index$|to_ascii_(upper|lower)case$|Deref>::deref$|From<.*>>::from$|::as_str$|Into<.*>>::into$|TextSize|TextRange|::start$|::end$|::next$|::into_iter$|::iter$', n)]
            if not sliced or foreign or any(k for k in d.consts if k.startswith('"') and k.strip('"').strip() != ''):
                badsrc.append((b, foreign))
            if conv:
                conv_blocks.append(b)
        if ps and not badsrc:
            r1.ok('text-from-token', detail='%d push_str sites' % len(ps))
        else:
            r1.bad('text-from-token', 'the line formatter appends text that is not the current token\'s own source slice%s: the formatted line no longer carries the same tokens' % (
                (' (via %s)' % ', '.join(x.split('::')[-1] for x in badsrc[0][1][:2])) if badsrc and badsrc[0][1] else ''), loc=fn.loc(badsrc[0][0]) if badsrc else fn.loc(0))
        # case conversion only for keywords
        kw = fn.calls(lambda n: n.endswith('TokenKind::is_keyword'))
        r1.saw()
        if conv_blocks:
            okc = False
            if kw:
                pos, neg, _ = call_result_edges(fn, kw[0][0])
                okc = bool(pos) and all(guarded(fn, b, pos) for b in conv_blocks)
            if okc:
                r1.ok('case-only-keywords')
            else:
                r1.bad('case-only-keywords', 'a token\'s text is case-converted on a path that did not establish is_keyword(): identifiers or literals would change spelling', loc=fn.loc(conv_blocks[0]))
        else:
            r1.ok('case-only-keywords', detail='no case conversion')
        # the only character pushed is a space
        r1.saw()
        badc = [b for b, nm, t in pc if not (t['a'][1][0] == 'k' and t['a'][1][2].strip().strip("const ").strip("'") in (' ', ''))]
        if not badc:
            r1.ok('separator-is-space')
        else:
            r1.bad('separator-is-space', 'the line formatter appends a character other than a single space between tokens', loc=fn.loc(badc[0]))
        # exactly one text push per token
        r1.saw()
        _once_per_iteration(fn, [b for b, _, _ in ps], r1, 'one-text-per-token', 'format_line_tokens')

    # ------------------------------------------------------------------ R2
    r2 = ctx.rule('C15.R2', 'line correspondence: what range/on-type formatting index by source line has exactly one group per source line', floor=4)
    fdl = fx.fns.get(M + 'format_document_lines')
    if fdl is None:
        r2.bad('anchor-missing|format_document_lines', 'the per-source-line formatter was not found')
    else:
        fn = F(fdl)
        r2.saw(len(fn.g))
        pushes = _vec_pushes(fn, lambda t: t == 'alloc::string::String')
        _once_per_iteration(fn, pushes, r2, 'one-group-per-line|format_document_lines', 'format_document_lines')
    wl = fx.fns.get(M + 'wrap_long_lines')
    if wl is None:
        r2.bad('anchor-missing|wrap_long_lines', 'wrap_long_lines not found')
    else:
        fn = F(wl)
        r2.saw(len(fn.g))
        ret = wl['locals'][0]
        m = re.match(r'alloc::vec::Vec<(.*)>$', ret)
        elem = m.group(1) if m else None
        pushes = _vec_pushes(fn, lambda t: t == elem) if elem else []
        if not pushes:
            r2.bad('one-group-per-line|wrap_long_lines', 'wrap_long_lines does not build its result by pushing one entry per input line (shape not recognised)', loc=fn.loc(0))
        else:
            _once_per_iteration(fn, pushes, r2, 'one-group-per-line|wrap_long_lines', 'wrap_long_lines')
    # in-place passes keep the count: they take &mut [String], never a Vec they could grow
    for name in ('align_var_block_colons', 'align_assignment_ops'):
        rec = fx.fns.get(M + name)
        r2.saw()
        if rec is None:
            r2.bad('anchor-missing|%s' % name, '%s not found' % name)
            continue
        fn = F(rec)
        grows = [b for b, nm, t in fn.calls(lambda n: re.search(r'Vec::<T(, A)?>::(push|insert|remove|truncate|drain|retain|extend)', n) is not None)
                 if any(o == ('arg', 1) for o in operand_origins(fn, t['a'][0]))]
        if rec['locals'][1].startswith('&mut [') and not grows:
            r2.ok('count-preserving|%s' % name)
        elif grows:
            r2.bad('count-preserving|%s' % name, '%s changes the number of lines it was given' % name, loc=fn.loc(grows[0]))
        else:
            r2.ok('count-preserving|%s' % name, detail='takes %s' % rec['locals'][1])
    # the edit builder is fed with the per-source-line result
    fle = M + 'format_lines_edit'
    for name in ('range_formatting', 'on_type_formatting'):
        rec = fx.fns.get(M + name)
        r2.saw()
        if rec is None:
            r2.bad('anchor-missing|%s' % name, '%s not found' % name)
            continue
        fn = F(rec)
        cs = fn.calls(lambda n: n == fle)
        if not cs:
            r2.bad('edit-source|%s' % name, '%s no longer builds its edit with format_lines_edit (shape not recognised)' % name, loc=fn.loc(0))
            continue
        b, nm, t = cs[0]
        d = deps(fn, t['a'][1])
        names = {c[1] for c in d.calls}
        if M + 'format_document_lines' in names and not any(re.search(r'str>::split|::lines$|split_terminator', n) for n in names):
            r2.ok('edit-source|%s' % name, loc=fn.loc(b))
        else:
            r2.bad('edit-source|%s' % name, '%s hands format_lines_edit lines that do not come from the per-source-line result (format_document_lines): after a long line was wrapped, output line k is no longer source line k' % name, loc=fn.loc(b))
    # format_lines_edit slices by the given source line numbers
    rec = fx.fns.get(fle)
    if rec is not None:
        fn = F(rec)
        r2.saw()
        idx = fn.calls(lambda n: re.search(r'Index<.*> for \[T\]>::index$|SliceIndex<\[T\]>>::index$', n) is not None)
        ok = False
        for b, nm, t in idx:
            d = deps(fn, t['a'][1])
            if {3, 4} <= d.args:
                ok = True
        if ok:
            r2.ok('slice-by-source-lines')
        else:
            r2.bad('slice-by-source-lines', 'format_lines_edit does not take exactly the groups start_line..=end_line', loc=fn.loc(0))

    # ------------------------------------------------------------------ R3
    r3 = ctx.rule('C15.R3', 'verbatim lines: block-comment lines are copied unchanged; comment/pragma lines are only re-indented (no token re-emission)', floor=2)
    if fdl is not None:
        fn = F(fdl)
        flt = set(fn.blocks_calling(lambda n: n == M + 'format_line_tokens'))
        pushes = _vec_pushes(fn, lambda t: t == 'alloc::string::String')
        # classify each push by what its value depends on
        verb, tok = [], []
        for p in pushes:
            t = fn.term(p)
            d = deps(fn, t['a'][1])
            names = {c[1] for c in d.calls}
            if M + 'format_line_tokens' in names:
                tok.append(p)
            else:
                verb.append((p, names))
        r3.saw(len(pushes))
        # the token-formatted push is reachable only when the line has neither a line comment nor a pragma and is not in a block comment:
        # i.e. every path from the block-comment / comment / pragma flag being true avoids format_line_tokens
        # the three line masks, found structurally: the Vec<bool> written under `token.kind == TokenKind::<V>`
        from ..util import promoted_variant
        KINDS = {'BlockComment': 'line_in_block_comment', 'LineComment': 'line_has_line_comment', 'Pragma': 'line_has_pragma'}
        mask_vec = {}
        for b, nm, t in fn.calls(lambda n: re.search(r'TokenKind as core::cmp::PartialEq>::eq$', n) is not None):
            var = promoted_variant(fdl, fn, t['a'][1]) or promoted_variant(fdl, fn, t['a'][0])
            if var not in KINDS:
                continue
            pos, neg, _ = call_result_edges(fn, b)
            region = fn.reach([x for (_, x) in pos], removed_edges=neg) if pos else set()
            nxt = {x for x in region if NEXT.search(fn.call_name(x) or '') and 'Token' in ' '.join(fn.term(x)['f'].get('ga') or [])}
            region = fn.reach([x for (_, x) in pos], avoid=nxt) if pos else set()
            for rb in region:
                cn = fn.call_name(rb) or ''
                if re.search(r'IndexMut<.*>::index_mut$|index_mut$|::get_mut$', cn):
                    d = deps(fn, fn.term(rb)['a'][0])
                    for l in d.locals:
                        if fn.local_ty(l).startswith('alloc::vec::Vec<bool'):
                            mask_vec.setdefault(KINDS[var], set()).add(l)
        flags = {}
        for l, dl in fn.defs.items():
            if fn.local_ty(l) != 'bool':
                continue
            for (b, k, pl) in dl:
                if k == 'A' and pl[0] == 'use' and pl[1][0] in ('c', 'm'):
                    src = deps(fn, pl[1])
                    for n, vecs in mask_vec.items():
                        if vecs & src.locals and len([m for m, v2 in mask_vec.items() if v2 & src.locals]) == 1:
                            flags.setdefault(n, set()).add(l)
                    if not mask_vec:
                        for n, plc in fn.r['names']:
                            if not plc[1] and plc[0] in src.locals and n in KINDS.values():
                                flags.setdefault(n, set()).add(l)
        okv = True
        missing = []
        for n in ('line_in_block_comment', 'line_has_line_comment', 'line_has_pragma'):
            ls = flags.get(n)
            if not ls:
                missing.append(n)
                continue
            seeds = {l: ('bool', True) for l in ls}
            pos, neg, _ = test_edges(fn, seeds)
            if not neg or not all(guarded(fn, b, neg) for b in flt):
                okv = False
                r3.bad('verbatim|%s' % n, 'a line flagged %s can still be rebuilt from its tokens: its comment / pragma text is not a token of the line and is dropped or moved' % n, loc=fn.loc(min(flt)) if flt else fn.loc(0))
        if missing:
            r3.bad('verbatim|flags', 'the line masks %s were not found (shape not recognised)' % missing, loc=fn.loc(0))
        elif okv:
            r3.ok('verbatim|flags', detail='token re-emission is behind the three not-flagged edges')
        # block-comment lines: pushed value depends on the source slice only
        r3.saw()
        plain = [p for p, names in verb if any(re.search(r'str>::index$|Index<I> for str>::index$', n) for n in names) and not any('format!' in n or n.endswith('fmt::format') or n.endswith('alloc::fmt::format::format_inner') for n in names)]
        if plain:
            r3.ok('block-comment-copied', loc=fn.loc(plain[0]))
        else:
            r3.bad('block-comment-copied', 'no push of an unmodified source line found (block-comment lines must be copied as they are)', loc=fn.loc(0))

    # ------------------------------------------------------------------ R4 web IDE formatter
    r4 = ctx.rule('C15.R4', 'web IDE formatter: lines covered by a multi-line block comment are copied unchanged; every other push is behind the not-in-comment edge', floor=2)
    W = 'trust_runtime::web::ide::format_structured_text_document'
    rec = fx.fns.get(W)
    if rec is None:
        r4.bad('anchor-missing|format_structured_text_document', 'web IDE formatter not found')
        return
    fn = F(rec)
    r4.saw(len(fn.g))
    pushes = _vec_pushes(fn, lambda t: t == 'alloc::string::String')
    rebuilt, verbatim = [], []
    for p in pushes:
        d = deps(fn, fn.term(p)['a'][1])
        names = {c[1] for c in d.calls}
        if any(re.search(r'::trim(_start|_end|_end_matches|_start_matches|_matches)?$|fmt::format|format_inner|String::new$|::repeat$', n) for n in names):
            rebuilt.append(p)
        else:
            verbatim.append(p)
    # the comment mask: a boolean that depends on a lexer-based line marker (a call that reaches trust_syntax's lexer)
    cg = ctx.cg
    markers = set()
    for b, nm, t in fn.calls(lambda n: n in fx.fns):
        if any(x.startswith('trust_syntax::lexer::') or 'logos::' in x for x in cg.reach([nm])):
            markers.add(b)
    seeds = {}
    for l, dl in fn.defs.items():
        if fn.local_ty(l) != 'bool':
            continue
        for (b, k, pl) in dl:
            src = None
            if k == 'A' and pl[0] == 'use' and pl[1][0] in ('c', 'm'):
                src = deps(fn, pl[1])
            elif k == 'C':
                src = deps(fn, ['c', [l, []]])
            if src is not None and any(cb in markers for cb, _ in src.calls):
                seeds[l] = ('bool', True)
    if not markers or not seeds:
        r4.bad('comment-mask', 'the web formatter has no lexer-based mask of the lines inside multi-line block comments: it trims and re-indents comment text (the comment token changes) and lets comment lines drive the indentation', loc=fn.loc(0))
    else:
        pos, neg, _ = test_edges(fn, seeds)
        r4.saw()
        if neg and rebuilt and all(guarded(fn, p, neg) for p in rebuilt):
            r4.ok('comment-mask', loc=fn.loc(rebuilt[0]), detail='%d rebuilding pushes behind the not-in-comment edge' % len(rebuilt))
        else:
            r4.bad('comment-mask', 'a line inside a multi-line block comment can still be trimmed / re-indented', loc=fn.loc(rebuilt[0]) if rebuilt else fn.loc(0))
        r4.saw()
        if pos and any(guarded(fn, p, pos) for p in verbatim):
            r4.ok('comment-lines-copied', loc=fn.loc(verbatim[0]))
        else:
            r4.bad('comment-lines-copied', 'no unmodified copy of the line on the in-comment edge', loc=fn.loc(0))
