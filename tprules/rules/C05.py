"""C05 — execution and compilation are deterministic and reproducible.

Decided statically over everything reachable (over-approximate call graph through
trust_runtime, trust_hir and trust_syntax, including salsa tracked functions) from the
compile, encode and cycle entry points: (R1) no order-revealing operation on a randomly
seeded hash container; (R2) no wall clock, environment, RNG, thread/process id, or
address-dependent value, except a reviewed table; (R3) the encoder's emission loops iterate
ordered containers only. Float formatting and the insides of external crates are not decided.
"""
import re

from ..cfg import F, place_fields

CRATES = ['trust_runtime', 'trust_hir', 'trust_syntax']
NODEFAULT_OK = False
EXPLANATION = __doc__

ROOT_PAT = re.compile(r'^trust_runtime::harness::build::(build_runtime_from_source_files|build_bytecode_module_from_source_files)$|'
                      r'^trust_runtime::bytecode::encode::<impl trust_runtime::bytecode::format::BytecodeModule>::encode$|'
                      r'^trust_runtime::runtime::cycle::<impl trust_runtime::runtime::core::Runtime>::execute_cycle$')
ITER = re.compile(r'(HashMap|HashSet)::<.*>::(iter|iter_mut|keys|values|values_mut|into_iter|into_keys|into_values|drain|retain|extract_if|union|intersection|'
                  r'difference|symmetric_difference)$|IntoIterator>::into_iter$|IntoIterator::into_iter$')
AMBIENT = re.compile(r'^std::time::(Instant|SystemTime)::now$|^std::env::|^rand::|^std::thread::current$|^std::process::id$|^std::thread::Thread::id$|'
                     r'^getrandom::|^std::collections::hash::map::RandomState::new$|^std::hash::random::RandomState::new$')
POINTER_FMT = re.compile(r'fmt::Pointer>::fmt$')

R1_REVIEWED = {
    ('trust_runtime::debug::control::DebugControl::on_statement_inner', 'retain'):
        'frame_locations.retain(pred): the predicate is a pure membership test and the result is a set; iteration order cannot reach a program-visible value',
}
R2_REVIEWED = {
    # (function without closure suffix, callee) -> reason
    ('trust_runtime::eval::stmt::check_execution_budget', 'std::time::Instant::now'): 'its only effect is the allowed ExecutionTimeout fault (C01)',
    ('trust_runtime::runtime::metrics_subsystem::MetricsSubsystem::start_timer', 'std::time::Instant::now'): 'metrics only: no field of MetricsSubsystem is read by program-visible code',
    ('trust_runtime::metrics::RuntimeMetrics::new', 'std::time::Instant::now'): 'metrics only (uptime origin)',
    ('<trust_hir::db::queries::salsa_backend::SalsaDatabase as core::default::Default>::default', 'std::env::var_os'): 'TRUST_HIR_SALSA_EVENT_LOG / _METRICS switch observability callbacks only; query results do not depend on them',
    ('trust_runtime::debug::trace::trace_enabled', 'std::env::var_os'): 'debug trace logging switch',
    ('trust_runtime::debug::trace::trace_log_file', 'std::env::var'): 'debug trace log file name',
}
R2_DRIVER_CLASS = re.compile(r'^<?trust_runtime::io::(ethercat|gpio|mqtt|modbus|opcua|simulated)::')
R2_DRIVER_REASON = 'hardware/network I/O driver timing (timeouts, reconnect back-off): drivers are the external world of the property; their data enters only through the input image'


def run(ctx):
    fx, cg = ctx.fx, ctx.cg
    roots = sorted(k for k in fx.fns if ROOT_PAT.search(k))
    r1 = ctx.rule('C05.R1', 'no order-revealing operation on a randomly seeded hash container in code reachable from compile, encode and cycle', floor=1, floor_what='RandomState iteration sites (reviewed control included)')
    if len(roots) < 4:
        r1.bad('anchor-missing|roots', 'expected the four entry points (build runtime, build bytecode module, encode, execute_cycle), found %s' % roots)
        return
    R = cg.reach(roots)
    local = [n for n in R if n in fx.fns]
    r1.note('%d bodies reachable from %d roots (%d local)' % (len(R), len(roots), len(local)))
    r2 = ctx.rule('C05.R2', 'no wall clock, environment, RNG, thread/process id or address-dependent value in reachable code (reviewed table excepted)', floor=8, floor_what='ambient call sites')
    for n in sorted(local):
        fn = F(fx.fns[n])
        r1.saw()
        for b, nm, t in fn.calls():
            if ITER.search(nm):
                ga = ' '.join(t['f'].get('ga') or [])
                if 'RandomState' not in ga and 'hash::random::Random' not in ga:
                    continue
                if not re.search(r'Hash(Map|Set)', nm + ga):
                    continue
                meth = nm.split('::')[-1]
                base = n.split('::{closure')[0]
                key = 'hash-iteration|%s|%s' % (base.replace('trust_runtime::', '').replace('trust_hir::', 'hir::'), meth)
                if (base, meth) in R1_REVIEWED:
                    r1.excepted(key, R1_REVIEWED[(base, meth)], loc=fn.loc(b))
                else:
                    chain = cg.chain(roots[0], {n}) or cg.chain(roots[1], {n}) or cg.chain(roots[3], {n}) or []
                    r1.bad(key, '%s over a std HashMap/HashSet (randomly seeded per process): its order differs between two processes and can reach the compiled container or the execution trace' % meth,
                           loc=fn.loc(b), witness={'call_chain': chain[:10]})
            if AMBIENT.search(nm) or POINTER_FMT.search(nm):
                r2.saw()
                base = n.split('::{closure')[0]
                key = 'ambient|%s|%s' % (base.replace('trust_runtime::', '').replace('trust_hir::', 'hir::'), nm.split('::')[-1])
                if (base, nm) in R2_REVIEWED:
                    r2.excepted(key, R2_REVIEWED[(base, nm)], loc=fn.loc(b))
                elif R2_DRIVER_CLASS.search(base):
                    r2.excepted(key, R2_DRIVER_REASON, loc=fn.loc(b))
                else:
                    chain = cg.chain(roots[0], {n}) or cg.chain(roots[3], {n}) or cg.chain(roots[1], {n}) or []
                    r2.bad(key, 'reachable code reads %s: the result of compiling/executing the same program can differ between runs or processes' % nm, loc=fn.loc(b), witness={'call_chain': chain[:10]})
        # pointer-to-integer casts
        for b in fn.g:
            for s in fn.bbs[b]['s']:
                if s[0] == 'A' and s[2][0] == 'cast' and 'PointerExpose' in s[2][1]:
                    r2.saw()
                    r2.bad('ambient|%s|ptr-to-int' % n, 'a pointer is cast to an integer (address-dependent value)', loc=fn.loc(b))

    # premises of two reviewed R2 exceptions -----------------------------------------------------------------------
    # (a) MetricsSubsystem::start_timer reads the wall clock "for metrics only": whatever derives from the timer is
    #     handed to the metrics recorder and to nothing else (no state field, no event, no other call)
    PROP = re.compile(r'Instant::elapsed$|Duration::(as_\w+|subsec_\w+|saturating_\w+|checked_\w+)$|Option::<.*>::(map|take|is_some|is_none|unwrap_or\w*|copied|cloned|as_ref|and_then)$|Try>::branch$|'
                      r'From<.*>( for [^>]+)?>::from$|TryFrom<.*>( for [^>]+)?>::try_from$|Into<.*>>::into$|Result::<.*>::(unwrap_or\w*|ok|map)$|::clone$|core::num::<impl \w+>::(saturating|checked|wrapping)_\w+$|FromResidual')
    SINK = re.compile(r'metrics_subsystem::MetricsSubsystem::record_\w+$|metrics::RuntimeMetrics::record_\w+$|core::mem::drop$')
    n_timer = 0
    for n in sorted(local):
        fn = F(fx.fns[n])
        starts = fn.calls(lambda x: x.endswith('metrics_subsystem::MetricsSubsystem::start_timer'))
        if not starts:
            continue
        n_timer += 1
        r2.saw()
        derived = {t['d'][0] for b, nm, t in starts if not t['d'][1]}
        bad = None
        changed = True
        while changed and bad is None:
            changed = False
            for b in fn.g:
                for st in fn.bbs[b]['s']:
                    if st[0] != 'A':
                        continue
                    ops_ = []
                    rv = st[2]
                    if rv[0] == 'use':
                        ops_ = [rv[1]]
                    elif rv[0] in ('cast', 'un'):
                        ops_ = [rv[2]]
                    elif rv[0] == 'bin':
                        ops_ = [rv[2], rv[3]]
                    elif rv[0] == 'ref':
                        ops_ = [['c', rv[2]]]
                    elif rv[0] == 'agg':
                        ops_ = list(rv[2])
                    elif rv[0] == 'discr':
                        ops_ = [['c', rv[1]]]
                    if any(o[0] in ('c', 'm') and o[1][0] in derived for o in ops_):
                        if st[1][1] and any(isinstance(e, list) and e[0] == 'f' for e in st[1][1]) and st[1][0] not in derived:
                            fs = place_fields(st[1])
                            bad = (b, 'is stored into %s' % (fs[-1] if fs else 'a field'))
                            break
                        if st[1][0] not in derived:
                            derived.add(st[1][0])
                            changed = True
                if bad:
                    break
                t = fn.term(b)
                if t['k'] == 'call' and any(a[0] in ('c', 'm') and a[1][0] in derived for a in t['a']):
                    nm = fn.call_name(b) or 'indirect'
                    if SINK.search(nm):
                        continue
                    if PROP.search(nm):
                        if not t['d'][1] and t['d'][0] not in derived:
                            derived.add(t['d'][0])
                            changed = True
                        continue
                    bad = (b, 'is passed to %s' % nm.split('::')[-1])
                    break
        key = 'timer-only-feeds-metrics|%s' % n.replace('trust_runtime::', '').split('::{closure')[0]
        if bad:
            r2.bad(key, 'a value derived from the metrics timer (host wall-clock time) %s: scheduling state or events then depend on how long the host took, not on the clock trace' % bad[1], loc=fn.loc(bad[0]))
        else:
            r2.ok(key, detail='timer-derived values reach only the metrics recorder')
    if n_timer == 0:
        r2.note('no caller of MetricsSubsystem::start_timer in reachable code')
    # (b) the compiler's inputs are the caller's texts and path strings: nothing handed to the bytecode builder derives
    #     from the file system or the process environment (source keys are canonicalised for the semantic project only)
    FS = re.compile(r'^std::fs::|^std::env::|std::path::Path::(canonicalize|exists|is_file|is_dir|metadata|symlink_metadata|read_link|read_dir|try_exists)$')
    fs_memo = {}

    def reaches_fs(fid):
        if fid not in fs_memo:
            fs_memo[fid] = any(FS.search(x) for x in cg.reach([fid]))
        return fs_memo[fid]
    from ..dep import deps as _deps
    n_builder = 0
    for n in sorted(local):
        if not n.startswith('trust_runtime::harness::build::'):
            continue
        fn = F(fx.fns[n])
        for b, nm, t in fn.calls(lambda x: re.search(r'BytecodeModule>?::from_runtime\w*$|BytecodeEncoder::<.*>::new$|BytecodeEncoder::new$', x) is not None):
            r2.saw()
            n_builder += 1
            key = 'builder-inputs-ambient-free|%s|%s' % (n.split('::')[-1], nm.split('::')[-1])
            culprit = None
            for a in t['a']:
                al = a[1][0] if a[0] in ('c', 'm') else None
                if al is not None and re.search(r'runtime::core::Runtime$', fn.local_ty(al).lstrip('&').replace('mut ', '')):
                    continue        # the built runtime itself: its construction is covered by the reachability part of R1/R2
                d = _deps(fn, a)
                for cb, cn in d.calls:
                    if FS.search(cn) or (cn in fx.fns and reaches_fs(cn)):
                        culprit = cn
                        break
                for cid in d.closures:
                    if culprit is None and cid in fx.fns and reaches_fs(cid):
                        hits = [x for x in cg.reach([cid]) if FS.search(x)]
                        culprit = (hits[0] if hits else cid)
                if culprit:
                    break
            if culprit:
                r2.bad(key, 'an argument of %s derives from %s, which reads the file system / process environment (canonicalisation depends on the working directory and on what exists on disk): the same texts and path strings then compile to different bytes in different processes' % (nm.split('::')[-1], culprit.split('::')[-1]), loc=fn.loc(b))
            else:
                r2.ok(key, loc=fn.loc(b))

    if n_builder == 0:
        r2.bad('anchor-missing|builder-calls', 'no call of the bytecode builder found in harness::build (rule would be vacuous)')

    # ------------------------------------------------------------------ R3
    r3 = ctx.rule('C05.R3', 'encoder emission loops iterate ordered containers (IndexMap / Vec / slice / BTreeMap), never a hash container', floor=20, floor_what='iteration sites in the encoder')
    for n in sorted(fx.fns):
        if not (n.startswith('trust_runtime::bytecode::encoder::') or n.startswith('trust_runtime::bytecode::encode::')):
            continue
        fn = F(fx.fns[n])
        for b, nm, t in fn.calls(lambda x: re.search(r'IntoIterator>?::into_iter$|::iter$|::iter_mut$|::values$|::keys$|::drain$|::into_values$|::into_keys$', x) is not None):
            ga = ' '.join(t['f'].get('ga') or [])
            recv = fn.local_ty(t['a'][0][1][0]) if t['a'] and t['a'][0][0] in ('c', 'm') else ''
            txt = nm + ' ' + ga + ' ' + recv
            r3.saw()
            short = n.replace('trust_runtime::bytecode::', '').split('::{closure')[0]
            if re.search(r'Hash(Map|Set)', txt) and not re.search(r'IndexMap|IndexSet', txt):
                r3.bad('emission-order|%s' % short, 'the encoder iterates a hash container (%s): emission order would follow hash order instead of declaration order' % nm.split('::')[-1], loc=fn.loc(b))
            else:
                r3.ok('emission-order|%s' % short, loc=fn.loc(b))
