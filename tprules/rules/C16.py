"""C16 — rename preserves program meaning and is reversible (thin).

Equality of diagnostics/behaviour before and after a rename, completeness of the reference
search and exact reversibility are value-level and not decided.  Decided statically, each a
necessary condition: (R1) every path that produces rename edits is behind the gates: the new
name is a valid identifier, not a reserved keyword, and the conflict test said no; the
namespace-move path validates every path component; only `rename` enters the edit-producing
functions; (R2) edit provenance: an edit's range is the range of a reference returned by the
reference search and its text is the validated new name, nothing else; (R3) the conflict test
looks beyond the declaring scope: it resolves the new name through the enclosing scopes
(shadowing) and inspects the scopes nested in the declaring scope (capture).
"""
import re

from ..cfg import F, op_local, place_fields
from ..gates import call_result_edges, guarded, test_edges
from ..prov import origins, operand_origins

CRATES = ['trust_ide', 'trust_hir', 'trust_lsp_bin', 'trust_runtime', 'trust_wasm_analysis']
NODEFAULT_OK = False
EXPLANATION = __doc__

RN = 'trust_ide::rename::'


def _gate_edges(fn, pred, want_true):
    """permitting edges of every call matched by pred whose boolean result must be want_true"""
    edges = set()
    n = 0
    for b, nm, t in fn.calls(pred):
        if t['d'][1]:
            continue
        pos, neg, _ = test_edges(fn, {t['d'][0]: ('bool', True)})
        n += 1
        edges |= (pos if want_true else neg)
    return edges, n


def run(ctx):
    fx, cg = ctx.fx, ctx.cg
    is_valid = lambda n: n.endswith('trust_hir::ident::is_valid_identifier') or n.endswith('::is_valid_identifier')
    is_kw = lambda n: n.endswith('::is_reserved_keyword')

    # ------------------------------------------------------------------ R1
    r1 = ctx.rule('C16.R1', 'every edit-producing rename path is behind the validity, keyword and conflict gates', floor=10)

    def gate(fn, sink, what, pred, want_true, key, why):
        edges, n = _gate_edges(fn, pred, want_true)
        r1.saw()
        if n and guarded(fn, sink, edges):
            r1.ok(key, loc=fn.loc(sink))
        else:
            r1.bad(key, why, loc=fn.loc(sink))

    ren = fx.fns.get(RN + 'rename')
    if ren is None:
        r1.bad('anchor-missing|rename', 'trust_ide::rename::rename not found')
    else:
        fn = F(ren)
        for b, nm, t in fn.calls(lambda n: n == RN + 'rename_symbol'):
            gate(fn, b, 'valid', is_valid, True, 'rename->rename_symbol|valid-identifier', 'rename reaches rename_symbol without the new name having passed is_valid_identifier: the edits can produce text that no longer parses')
            gate(fn, b, 'kw', is_kw, False, 'rename->rename_symbol|not-keyword', 'rename reaches rename_symbol although the new name may be a reserved keyword: the renamed program no longer parses')
            gate(fn, b, 'conflict', lambda n: n == RN + 'has_conflict', False, 'rename->rename_symbol|no-conflict', 'rename reaches rename_symbol without the conflict test having said no: the new name can collide with, shadow or be captured by another declaration')
        if not fn.calls(lambda n: n == RN + 'rename_symbol'):
            r1.bad('anchor-missing|rename->rename_symbol', 'rename no longer calls rename_symbol')
        if not fn.calls(lambda n: n == RN + 'rename_field'):
            r1.bad('anchor-missing|rename->rename_field', 'rename no longer calls rename_field')
        # namespace move: behind a successful parse_namespace_path
        for b, nm, t in fn.calls(lambda n: n.endswith('refactor::operations::move_namespace_path')):
            r1.saw()
            ok = False
            for pb, pn, pt in fn.calls(lambda n: n.endswith('refactor::operations::parse_namespace_path')):
                pos, neg, _ = call_result_edges(fn, pb)
                if pos and guarded(fn, b, pos):
                    # and the moved-to path is the parsed one
                    oo = operand_origins(fn, t['a'][2], extra_pass=lambda n: n.endswith('Deref>::deref') or n.endswith('::as_slice'))
                    if any(o[0] == 'call' and o[1] == pb for o in oo):
                        ok = True
            if ok:
                r1.ok('rename->move_namespace_path|validated-path', loc=fn.loc(b))
            else:
                r1.bad('rename->move_namespace_path|validated-path', 'the namespace move takes a new path that did not come out of a successful parse_namespace_path (component validity/keyword checks bypassed)', loc=fn.loc(b))
    pnp = [k for k in fx.fns if k.endswith('refactor::utilities::parse_namespace_path')]
    if not pnp:
        r1.bad('anchor-missing|parse_namespace_path', 'parse_namespace_path not found')
    else:
        fn = F(fx.fns[pnp[0]])
        for b, nm, t in fn.calls(lambda n: re.search(r'Vec::<.*>::push$', n) is not None):
            gate(fn, b, 'valid', is_valid, True, 'parse_namespace_path|valid-identifier', 'a namespace path component is accepted without is_valid_identifier')
            gate(fn, b, 'kw', is_kw, False, 'parse_namespace_path|not-keyword', 'a namespace path component is accepted although it may be a reserved keyword')
    for fname, conflict in (('rename_symbol', None), ('rename_field', 'field_has_conflict')):
        rec = fx.fns.get(RN + fname)
        if rec is None:
            r1.bad('anchor-missing|%s' % fname, '%s not found' % fname)
            continue
        fn = F(rec)
        adds = fn.calls(lambda n: n == RN + 'RenameResult::add_edit')
        if not adds:
            r1.bad('anchor-missing|%s|add_edit' % fname, '%s no longer produces edits through RenameResult::add_edit' % fname)
        for b, nm, t in adds:
            gate(fn, b, 'valid', is_valid, True, '%s|valid-identifier' % fname, '%s produces an edit without the new name having passed is_valid_identifier' % fname)
            if conflict:
                gate(fn, b, 'kw', is_kw, False, '%s|not-keyword' % fname, '%s produces an edit although the new name may be a reserved keyword' % fname)
                gate(fn, b, 'conflict', lambda n: n == RN + conflict, False, '%s|no-conflict' % fname, '%s produces an edit without the field conflict test having said no: two fields of one structure can end up with the same name' % fname)
    # who may enter below the gates
    for fname in ('rename_symbol', 'rename_field'):
        r1.saw()
        callers = sorted({c[0] for c in cg.callers(RN + fname)})
        extra = [c for c in callers if c != RN + 'rename' and '::tests::' not in c]
        if extra:
            r1.bad('who-calls|%s' % fname, '%s is entered from %s, below the keyword and conflict gates of rename' % (fname, ', '.join(extra)))
        elif callers:
            r1.ok('who-calls|%s' % fname)
        else:
            r1.bad('who-calls|%s' % fname, '%s has no caller: the gated entry point changed shape' % fname)

    # ------------------------------------------------------------------ R2
    r2 = ctx.rule('C16.R2', 'an edit replaces exactly a found reference with the validated new name', floor=4)
    for fname, search in (('rename_symbol', 'references::find_references'), ('rename_field', 'references::find_references_to_field')):
        rec = fx.fns.get(RN + fname)
        if rec is None:
            continue
        fn = F(rec)
        r2.saw(len(fn.g))
        aggs = [(b, s) for b in fn.g for s in fn.bbs[b]['s'] if s[0] == 'A' and s[2][0] == 'agg' and re.search(r'rename::TextEdit(::TextEdit)?$', s[2][1])]
        if not aggs:
            r2.bad('anchor-missing|%s|TextEdit' % fname, '%s builds no TextEdit' % fname)
            continue
        adt = fx.adts.get('trust_ide::rename::TextEdit')
        names = [f[0] for f in adt['variants'][0]['fields']] if adt else ['range', 'new_text']
        for b, s in aggs:
            ops = dict(zip(names, s[2][2]))
            # range
            ro = operand_origins(fn, ops['range'], extra_pass=lambda n: n.endswith('Iterator>::next') or n.endswith('IntoIterator>::into_iter'))
            from_ref = any(o[0] == 'field' and o[1].endswith('Reference.range') for o in ro) or _reads_field(fn, ops['range'], 'Reference.range')
            others = [o for o in ro if o[0] in ('op', 'const', 'agg') or (o[0] == 'call' and not re.search(r'find_references', o[2]))]
            srch = any(o[0] == 'call' and o[2].endswith(search) for o in ro)
            if from_ref and srch and not others:
                r2.ok('%s|range-from-reference' % fname, loc=fn.loc(b))
            else:
                r2.bad('%s|range-from-reference' % fname, 'the range of a rename edit is not (only) the range of a reference returned by %s%s: an adjusted or synthesised range replaces text that is not one identifier occurrence' % (
                    search.split('::')[-1], (' (also %s)' % ', '.join(str(o[:2]) for o in others[:2])) if others else ''), loc=fn.loc(b))
            # new text
            to = operand_origins(fn, ops['new_text'])
            nn = set(fn.local_of('new_name'))
            argn = {('arg', l) for l in nn if 1 <= l <= rec['argc']}
            if argn and set(o for o in to if o[0] in ('arg', 'call', 'const', 'op', 'agg', 'field')) <= argn:
                r2.ok('%s|text-is-new-name' % fname, loc=fn.loc(b))
            else:
                r2.bad('%s|text-is-new-name' % fname, 'the replacement text of a rename edit is not exactly the validated new name (origins %s)' % sorted(str(o) for o in to)[:4], loc=fn.loc(b))

    # ------------------------------------------------------------------ R3
    r3 = ctx.rule('C16.R3', 'the conflict test covers enclosing scopes (shadowing) and nested scopes (capture), not only the declaring scope', floor=2)
    hc = fx.fns.get(RN + 'has_conflict')
    if hc is None:
        r3.bad('anchor-missing|has_conflict', 'has_conflict not found')
    else:
        fn = F(hc)
        r3.saw(len(fn.g))
        bodies = [hc] + [fx.fns[c] for c in fx.closures_of(RN + 'has_conflict') if c in fx.fns]
        called = set()
        for rec in bodies:
            f2 = F(rec)
            for b, nm, t in f2.calls():
                called.add(nm)
        nn = set(fn.local_of('new_name'))
        # (a) enclosing scopes: SymbolTable::resolve(new_name, ..) or an explicit walk over Scope.parent
        res = [(b, t) for b, nm, t in fn.calls(lambda n: n.endswith('symbols::table::SymbolTable::resolve'))]
        res_ok = any(any(o == ('arg', l) for l in nn for o in operand_origins(fn, t['a'][1])) for b, t in res)
        walks_parent = any(any(f.endswith('Scope.parent') for ch in _reads(rec) for f in ch) for rec in bodies)
        if res_ok or walks_parent:
            r3.ok('enclosing-scopes', loc=fn.loc(res[0][0]) if res else None)
        else:
            r3.bad('enclosing-scopes', 'has_conflict looks up the new name in the declaring scope only: renaming a symbol to the name of a declaration visible from an enclosing scope (e.g. a parameter to its function\'s name) shadows that declaration and changes what the neighbouring uses bind to', loc=fn.loc(0))
        # (b) nested scopes: iterates all scopes and looks the name up locally
        iterates = any(n.endswith('SymbolTable::scopes') or n.endswith('SymbolTable::scope_count') for n in called)
        local = any(n.endswith('Scope::lookup_local') or n.endswith('SymbolTable::lookup_in_scope') for n in called)
        # nesting is transitive: the walk up the Scope.parent chain is a loop (in has_conflict, a closure of it, or a
        # helper of this module that they call); a single `scope.parent == declaring` test sees direct children only
        helper_recs = [fx.fns[n] for n in called if n.startswith(RN) and n in fx.fns and n != RN + 'has_conflict']
        def _parent_in_loop(rec):
            f2 = F(rec)
            inloop = set().union(*[set(c) for c in f2.sccs() if len(c) > 1] or [set()])
            for b2 in inloop:
                for st2 in f2.bbs[b2]['s']:
                    if st2[0] == 'A':
                        for o2 in ([st2[2][1]] if st2[2][0] == 'use' else [['c', st2[2][2]]] if st2[2][0] == 'ref' else []):
                            if o2[0] in ('c', 'm') and any(f.endswith('Scope.parent') for f in place_fields(o2[1])):
                                return True
                t2 = f2.term(b2)
                if t2['k'] == 'call' and any(a[0] in ('c', 'm') and any(f.endswith('Scope.parent') for f in place_fields(a[1])) for a in t2['a']):
                    return True
            # iterator form of the walk: `iter::successors(Some(scope), |id| get_scope(id).and_then(|s| s.parent))`
            # (the loop is the library's; the step closure, or a closure nested in it, reads Scope.parent)
            if f2.calls(lambda n: re.search(r'core::iter::(sources::successors::)?successors$', n) is not None):
                def _nested(cid, depth=0):
                    out = [cid]
                    if depth < 2:
                        for c2 in fx.closures_of(cid):
                            out += _nested(c2, depth + 1)
                    return out
                allc = [c for c0 in fx.closures_of(rec['id']) for c in _nested(c0)]
                if any(c in fx.fns and any(f.endswith('Scope.parent') for ch in _reads(fx.fns[c]) for f in ch) for c in allc):
                    return True
            # closures passed to and_then / map inside the loop
            for c in fx.closures_of(rec['id']):
                if c in fx.fns and any(f.endswith('Scope.parent') for ch in _reads(fx.fns[c]) for f in ch) and inloop:
                    return True
            return False
        nested_helper = any(_parent_in_loop(rec) for rec in bodies + helper_recs)
        r3.saw()
        if iterates and local and nested_helper:
            r3.ok('nested-scopes')
        else:
            r3.bad('nested-scopes', 'has_conflict does not look into all scopes nested (at any depth) in the declaring scope: renaming a function to the name of a local variable of a caller makes the call bind to that variable (capture)', loc=fn.loc(0))


    # (c) project scope: the table handed to the conflict test contains the declarations of the other files
    rn = fx.fns.get(RN + 'rename')
    r3.saw()
    if rn is None:
        r3.bad('anchor-missing|rename', 'rename not found')
    else:
        fr = F(rn)
        hcs = fr.calls(lambda n: n == RN + 'has_conflict')
        if not hcs:
            r3.bad('project-scope', 'rename no longer calls has_conflict', loc=fr.loc(0))
        for b, nm, t in hcs:
            names = {o[2] for o in operand_origins(fr, t['a'][0], extra_pass=lambda n: re.search(r'Deref>::deref$|Arc<.*>::(as_ref|deref)$|AsRef', n) is not None) if o[0] == 'call'}
            if any(n.endswith('::file_symbols_with_project') or n.endswith('::file_symbols_with_project_filtered') for n in names):
                r3.ok('project-scope', loc=fr.loc(b))
            else:
                r3.bad('project-scope', 'the conflict test runs on %s, which lacks the declarations of the other files: renaming FUNCTION Foo to the name of a FUNCTION Bar declared in another file is accepted and leaves two declarations of Bar' % (sorted(n.split('::')[-1] for n in names) or ['an unknown table']), loc=fr.loc(b))

    # ------------------------------------------------------------------ R4 identifier case
    # IEC identifiers are case-insensitive; the reference search and the rename compare names with eq_ignore_ascii_case.
    # Any case-sensitive comparison or text search with a string pattern there drops the occurrences spelled differently.
    r4 = ctx.rule('C16.R4', 'names are matched case-insensitively: no case-sensitive string comparison or text search in the reference search and the rename', floor=5, floor_what='case-insensitive comparisons')
    cs = re.compile(r'<impl str>::(contains|starts_with|ends_with|find|rfind|matches|match_indices|strip_prefix|strip_suffix|split)$|PartialEq<.*>>::(eq|ne)$|PartialEq>::(eq|ne)$|core::cmp::PartialEq::ne$')
    n_ci = 0
    for k in sorted(fx.fns):
        if not (k.startswith('trust_ide::references::') or k.startswith(RN)) or '::tests::' in k:
            continue
        f4 = F(fx.fns[k])
        for b, nm, t in f4.calls(lambda n: n.endswith('<impl str>::eq_ignore_ascii_case')):
            n_ci += 1
            r4.ok('ci|%s' % k[len('trust_ide::'):].split('::{closure')[0], loc=f4.loc(b))
        for b, nm, t in f4.calls(lambda n: cs.search(n) is not None):
            ga = ' '.join(t['f'].get('ga') or [])
            textual = ('<impl str>::' in nm and 'char' not in ga.split(' ')[0:1] and not ga.startswith('char')) or (('PartialEq' in nm) and re.search(r'\bstr\b|String|SmolStr', nm + ' ' + ga) is not None)
            if not textual:
                continue
            r4.saw()
            short = k[len('trust_ide::'):].split('::{closure')[0]
            r4.bad('case-sensitive|%s|%s' % (short, nm.split('::')[-1]), '%s compares or searches text case-sensitively (%s): occurrences of the name spelled in another case (legal in IEC 61131-3) are not found, so a rename leaves them behind' % (short, nm.split('::')[-1]), loc=f4.loc(b))
    r4.saw(n_ci)

    # ------------------------------------------------------------------ R5 the symbol under the cursor belongs to this file
    # the project-augmented table holds symbols imported from other files with the text ranges of their home files; a
    # lookup by range must therefore discriminate on Symbol.origin
    r5 = ctx.rule('C16.R5', 'the symbol picked by its range at the cursor is one of this file: the by-range lookup reads Symbol.origin', floor=1)
    RT = 'trust_ide::util::resolve_target_at_position_with_context'
    rt = fx.fns.get(RT)
    if rt is None:
        r5.bad('anchor-missing|resolve_target_at_position_with_context', 'target resolution not found')
    else:
        bodies = [rt] + [fx.fns[c] for c in fx.closures_of(RT) if c in fx.fns]
        r5.saw(len(bodies))
        reads_range = any(any(f.endswith('Symbol.range') for ch in _reads(rec) for f in ch) for rec in bodies)
        reads_origin = any(any(f.endswith('Symbol.origin') for ch in _reads(rec) for f in ch) for rec in bodies)
        by_range_callees = []
        for rec in bodies:
            f5 = F(rec)
            for b, nm, t in f5.calls(lambda n: n.startswith('trust_ide::') and n in fx.fns and n != RT):
                cr = [fx.fns[nm]] + [fx.fns[c] for c in fx.closures_of(nm) if c in fx.fns]
                if any(any(f.endswith('Symbol.range') for ch in _reads(r_) for f in ch) for r_ in cr) and re.search(r'at_range|by_range', nm):
                    by_range_callees.append((f5, b, nm, any(any(f.endswith('Symbol.origin') for ch in _reads(r_) for f in ch) for r_ in cr)))
        blind = [x for x in by_range_callees if not x[3]]
        if blind:
            f5, b, nm, _ = blind[0]
            r5.bad('by-range-origin', 'the symbol at the cursor is looked up with %s, which matches the text range only: a symbol imported from another file with the same offsets can be picked, and the rename then edits that other declaration' % nm.split('::')[-1], loc=f5.loc(b))
        elif reads_range and reads_origin:
            r5.ok('by-range-origin')
        else:
            r5.bad('by-range-origin', 'the by-range symbol lookup of the target resolution does not look at Symbol.origin (shape not recognised)', loc='%s:%d' % (rt['file'], rt['line']))

def _reads(rec):
    from ..cg import field_reads
    return field_reads(rec)


def _reads_field(fn, o, suffix):
    """the operand is (a copy of) a place whose last field is `suffix`"""
    if o[0] in ('c', 'm'):
        fs = place_fields(o[1])
        if fs and fs[-1].endswith(suffix):
            return True
        for (b, k, rv) in fn.defs.get(o[1][0], []):
            if k == 'A' and rv[0] == 'use' and _reads_field(fn, rv[1], suffix):
                return True
    return False
