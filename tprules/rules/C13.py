"""C13 — incremental analysis equals from-scratch analysis after any edit history.

Decided statically over `trust_hir` (and what it reaches in `trust_syntax`): (R1) tracked
queries are pure functions of their salsa inputs: nothing reachable from a tracked query body
reads a clock, the environment, the file system, an RNG or the database's own bookkeeping;
(R2) the three views of the file set (Database.sources, the revision counter, the salsa-side
SourceInput table + project file list) are updated together by the two mutators, and the
project file list is sorted before it becomes a salsa input; (R3) no history- or
process-dependent iteration order reaches a query input or answer. Equality of answers with a
fresh database needs the differential run the property describes and is not decided.
"""
import re

from ..cfg import F, op_local, place_fields
from ..gates import call_result_edges, guarded
from ..prov import origins, operand_origins
from ..cg import field_writes, field_reads

CRATES = ['trust_hir', 'trust_syntax']
NODEFAULT_OK = False
EXPLANATION = __doc__

Q = 'trust_hir::db::queries::'
AMBIENT = re.compile(r'^std::time::(Instant|SystemTime)::now$|^std::env::|^rand::|^std::fs::|^std::net::|^std::thread::current$|^std::process::id$|^getrandom::')
R1_REVIEWED = {
    'std::env::var_os': 'reached only through SalsaDatabase::default (observability switches, C05.R2); over-approximate edge: tracked bodies receive an existing &dyn Database and never construct one',
}
ITER = re.compile(r'(HashMap|HashSet|IndexMap)::<.*>::(iter|iter_mut|keys|values|values_mut|into_iter|into_keys|into_values|drain|retain)$|IntoIterator>?::into_iter$')
PERSISTENT = re.compile(r'(queries::(database::)?Database|salsa_backend::SalsaState|SourceRegistry|project::Project)\.\w+$')
R3_REVIEWED = {
    # (function, field) -> (kind, reason)
    ('sync_project_inputs', 'SalsaState.sources'): ('sorted', None),
    ('prepare_salsa_project', 'SalsaState.sources'): ('insensitive', 'retain with a pure membership predicate'),
    ('prepare_salsa_project', 'Database.sources'): ('insensitive', 'each entry is copied into a map / its text set: the result does not depend on visiting order'),
    ('project_symbol_tables', 'Database.sources'): ('insensitive', 'results are inserted into a map keyed by file id'),
    ('file_ids', 'Database.sources'): ('exposed', 'returns ids in container order to callers; not one of the answers the property names (diagnostics, symbol tables, expression types)'),
    ('iter', 'SourceRegistry.ids_by_key'): ('exposed', 'SourceRegistry::iter hands out container order; callers that feed analysis sort or insert into sets (file_ids_for_config)'),
}


def run(ctx):
    fx, cg = ctx.fx, ctx.cg
    # ------------------------------------------------------------------ R1
    r1 = ctx.rule('C13.R1', 'tracked queries are pure functions of their salsa inputs', floor=8, floor_what='tracked query bodies')
    roots = sorted(k for k in fx.fns if re.search(r'salsa::function::Configuration>::execute::inner_$', k) and 'trust_hir' in k)
    if not roots:
        r1.bad('anchor-missing|tracked', 'no salsa tracked query body found')
    derived = {m for im in fx.impls if im.get('derived') for _, m in im['methods']}
    bookkeeping = re.compile(r'queries::(database::)?Database\.(sources|source_revision|salsa_state)$')
    for root in roots:
        qn = re.search(r'_::(\w+)_Configuration_', root).group(1)
        R = cg.reach([root])
        r1.saw(len(R))
        probs = []
        for n in sorted(R):
            if AMBIENT.search(n) and n not in R1_REVIEWED:
                probs.append('reaches %s' % n)
            rec = fx.fns.get(n)
            if rec is None or n in derived:
                continue
            if not n.startswith(('trust_hir', '<trust_hir')):
                continue
            for ch in field_reads(rec):
                if any(bookkeeping.search(f) for f in ch):
                    if re.search(r'queries::database::<impl .*Database>|SourceDatabase for .*Database>', n):
                        continue     # the facade methods themselves; flagged only if reachable *and* read from a query (below)
        # signature: the body receives only `&dyn salsa::Database` and salsa structs
        rec = fx.fns[root]
        argt = [rec['locals'][i] for i in range(1, rec['argc'] + 1)]
        if not any('dyn salsa::' in t or 'salsa::Database' in t for t in argt):
            probs.append('does not take &dyn salsa::Database (argument types %s)' % argt[:3])
        if any('queries::database::Database' in t or 'queries::Database' in t for t in argt):
            probs.append('receives the facade Database (its HashMap bookkeeping is not a salsa input)')
        if probs:
            r1.bad('pure|%s' % qn, 'tracked query %s is not a pure function of its inputs: %s' % (qn, '; '.join(probs[:3])), loc='%s:%d' % (rec['file'], rec['line']),
                   witness={'call_chain': (cg.chain(root, lambda n: AMBIENT.search(n) is not None and n not in R1_REVIEWED) or [])[:10]})
        else:
            r1.ok('pure|%s' % qn, detail='%d reachable bodies' % len(R))
    # statics with interior mutability defined in trust_hir that are not salsa/tracing plumbing
    bad_statics = [s for s in fx.statics if s['id'].startswith('trust_hir::') and (s.get('mut') or re.search(r'Mutex|RwLock|Cell<|Atomic|OnceLock|Lazy', s.get('ty', '')))
                   and not re.search(r'__CALLSITE|__INVENTORY|__CTOR|_CACHE_?$|::CACHE$|ingredient', s['id'])]
    if bad_statics:
        r1.bad('mutable-statics', 'trust_hir defines statics with interior mutability outside salsa/tracing plumbing: %s' % [s['id'] for s in bad_statics][:4])
    else:
        r1.ok('mutable-statics', detail='%d statics, all salsa/tracing/inventory plumbing' % len([s for s in fx.statics if s['id'].startswith('trust_hir::')]))

    # ------------------------------------------------------------------ R2
    r2 = ctx.rule('C13.R2', 'Database.sources, the revision counter and the salsa-side file table are updated together; the project file list is sorted before it becomes an input', floor=5)
    writers = {}
    for k, rec in fx.fns.items():
        if not k.startswith(('trust_hir', '<trust_hir')):
            continue
        w, mb = field_writes(rec)
        for ch in w | mb:
            if re.search(r'queries::(database::)?Database\.sources$', ch[-1]):
                writers.setdefault(k.split('::{closure')[0], set()).add('sources')
    r2.saw(len(writers))
    want = {w for w in writers if re.search(r'::(set_source_text|remove_source_text)$', w)}
    others = sorted(w for w in writers if w not in want and not re.search(r'Database>::(new|default|clone)$|::clone$|Default>::default$', w))
    if others:
        r2.bad('sources-writers', 'Database.sources is written outside set_source_text/remove_source_text: %s' % others)
    elif len(want) == 2:
        r2.ok('sources-writers', detail=sorted(w.split('::')[-1] for w in want))
    else:
        r2.bad('sources-writers', 'expected set_source_text and remove_source_text to write Database.sources (found %s)' % sorted(w.split('::')[-1] for w in want))
    for w in sorted(want):
        fn = F(fx.fns[w])
        name = w.split('::')[-1]
        r2.saw(len(fn.g))
        # the write call (insert/remove with &mut self.sources)
        wb = None
        for b, nm, t in fn.calls(lambda n: re.search(r'HashMap::<.*>::(insert|remove)$', n) is not None):
            if any(o[0] == 'field' and o[1].endswith('Database.sources') for o in operand_origins(fn, t['a'][0])):
                wb = b
        bump = fn.blocks_calling(lambda n: re.search(r'atomic::Atomic\w*(::<[^>]*>)?::fetch_add$', n) is not None)
        ws = fn.calls(lambda n: n.endswith('Database>::with_salsa_state') or n.endswith('::with_salsa_state'))
        if wb is None or not bump or not ws:
            r2.bad('triple|%s' % name, '%s no longer (write sources, bump revision, update salsa state): found write=%s bump=%d salsa=%d' % (name, wb is not None, len(bump), len(ws)), loc=fn.loc(0))
            continue
        # on the path where the write produced a change, every path to return passes the bump and the salsa update
        after = list(fn.g.get(wb, []))
        ok1, p1 = fn.must_pass_from(after, set(bump)) if name == 'set_source_text' else _must_pass_on_some(fn, wb, set(bump))
        ok2, p2 = fn.must_pass_from(after, {b for b, _, _ in ws}) if name == 'set_source_text' else _must_pass_on_some(fn, wb, {b for b, _, _ in ws})
        # the closure handed to with_salsa_state updates SalsaState.sources and synced_revision
        clo_ok = False
        for b, nm, t in ws:
            for a in t['a']:
                for o in operand_origins(fn, a):
                    if o[0] == 'agg' and o[1].startswith('closure:') and o[1][8:] in fx.fns:
                        cw, cmb = field_writes(fx.fns[o[1][8:]])
                        fl = {ch[-1].split('::')[-1] for ch in cw | cmb}
                        if 'SalsaState.synced_revision' in fl and ('SalsaState.sources' in fl or _closure_sets_text(fx, o[1][8:])):
                            clo_ok = True
        if ok1 and ok2 and clo_ok:
            r2.ok('triple|%s' % name, loc=fn.loc(wb))
        else:
            r2.bad('triple|%s' % name, '%s changes Database.sources without %s: the salsa inputs lag behind the facade and later queries answer for an older file set' % (
                name, 'bumping the revision' if not ok1 else 'updating the salsa-side table and synced_revision' if not (ok2 and clo_ok) else '?'), loc=fn.loc(wb))
    sp = fx.fns.get(Q + 'salsa_backend::sync_project_inputs')
    if sp is None:
        r2.bad('anchor-missing|sync_project_inputs', 'sync_project_inputs not found')
    else:
        fn = F(sp)
        r2.saw(len(fn.g))
        sort = fn.blocks_calling(lambda n: re.search(r'<impl \[T\]>::sort', n) is not None)
        sinks = fn.blocks_calling(lambda n: n.endswith('ProjectInputs::new') or re.search(r'Setter.*::to$|::to$', n) is not None)
        if sort and sinks and all(fn.dominates(sort[0], s) for s in sinks):
            r2.ok('file-list-sorted', loc=fn.loc(sort[0]))
        else:
            r2.bad('file-list-sorted', 'the project file list becomes a salsa input without being sorted by file id: its order then depends on hash-map history and project-wide answers differ from a fresh database', loc=fn.loc(0))
        # sorted by file id
        for b, nm, t in fn.calls(lambda n: re.search(r'<impl \[T\]>::sort', n) is not None):
            okk = False
            for a in t['a']:
                for o in operand_origins(fn, a):
                    if o[0] == 'agg' and o[1].startswith('closure:') and o[1][8:] in fx.fns:
                        cf = fx.fns[o[1][8:]]
                        if any(any(f.endswith('FileId.0') for f in ch) for ch in field_reads(cf)):
                            okk = True
            if okk:
                r2.ok('file-list-sort-key')
            else:
                r2.bad('file-list-sort-key', 'the file list is not sorted by FileId', loc=fn.loc(b))

    # project membership is a function of the file *set* only: the list handed to salsa contains every registered source,
    # whatever its text (membership is re-synced only when the set changes, so a content-dependent filter goes stale)
    spi = [k for k in fx.fns if k.endswith('salsa_backend::sync_project_inputs')]
    if not spi:
        r2.bad('anchor-missing|sync_project_inputs', 'sync_project_inputs not found')
    else:
        bodies = [spi[0]] + [c for c in fx.closures_of(spi[0])]
        r2.saw(len(bodies))
        filt = None
        for bid in bodies:
            f2 = F(fx.fns[bid])
            for b, nm, t in f2.calls(lambda n: re.search(r'Iterator::(filter|filter_map|take_while|skip_while|skip|take|step_by)$', n) is not None):
                filt = (f2, b, nm)
        reads_text = [x for bid in bodies for x in cg.reach([bid]) if re.search(r'SourceInput::text$', x)]
        if filt or reads_text:
            f2, b, nm = filt if filt else (F(fx.fns[spi[0]]), 0, '')
            r2.bad('membership-independent-of-text', 'the project file list depends on %s: membership is only re-synced when the set of files changes, so a file that was left out because of its text (e.g. registered while blank) stays outside the project after the text changes, and answers differ from a fresh database' % (
                ('a `%s` over the sources' % nm.split('::')[-1]) if filt else 'the text of the sources (SourceInput::text)'), loc=f2.loc(b))
        else:
            r2.ok('membership-independent-of-text')
    # a fresh Database must be *unsynced*: its initial source revision differs from the initial synced revision of the
    # salsa state, otherwise the first project query skips prepare_salsa_project and meets uninitialised project inputs
    dd = [k for k in fx.fns if re.search(r'<trust_hir::db::queries::Database as core::default::Default>::default$', k)]
    r2.saw()
    if not dd:
        r2.bad('anchor-missing|Database::default', 'Default for Database not found')
    else:
        fn = F(fx.fns[dd[0]])
        init = None
        for b, nm, t in fn.calls(lambda n: re.search(r'Atomic(U64|::<u64>)::new$|atomic::Atomic::<u64>::new$|AtomicU64::new$', n) is not None):
            a = t['a'][0]
            if a[0] == 'k':
                m = re.search(r'(\d+)', a[2])
                init = int(m.group(1)) if m else None
        derived_default = any(im.get('derived') and dd[0] in [m for _, m in im['methods']] for im in fx.impls)
        sd = [im for im in fx.impls if im.get('self', '').endswith('salsa_backend::SalsaState') and im.get('trait', '').endswith('Default')]
        synced0 = 0      # derived Default for u64; a hand-written impl is looked at below
        if sd and not sd[0].get('derived'):
            synced0 = None
        if derived_default or init is None:
            r2.bad('fresh-database-is-unsynced', 'Database::default does not start source_revision at an explicit non-zero constant: with the salsa state also starting at 0 a query on a database that never received a file skips prepare_salsa_project and panics on the uninitialised project inputs', loc=fn.loc(0))
        elif synced0 is not None and init == synced0:
            r2.bad('fresh-database-is-unsynced', 'Database::default starts source_revision at %d, the same value SalsaState::default gives synced_revision: the first query skips the project preparation' % init, loc=fn.loc(0))
        else:
            r2.ok('fresh-database-is-unsynced', detail='source_revision starts at %s' % init)

    # ------------------------------------------------------------------ R3
    r3 = ctx.rule('C13.R3', 'no history- or process-dependent iteration order reaches a query input or answer', floor=5, floor_what='iterations over persistent hash containers')
    for k, rec in sorted(fx.fns.items()):
        if not k.startswith(('trust_hir', '<trust_hir')):
            continue
        fn = F(rec)
        for b, nm, t in fn.calls(lambda n: ITER.search(n) is not None):
            if not t['a']:
                continue
            ga = ' '.join(t['f'].get('ga') or [])
            oo = operand_origins(fn, t['a'][0])
            flds = sorted({o[1] for o in oo if o[0] == 'field' and PERSISTENT.search(o[1])})
            if 'RandomState' in ga and re.search(r'Hash(Map|Set)', nm + ga):
                r3.saw()
                r3.bad('random-order|%s' % k.split('::')[-1], 'iteration over a randomly seeded std hash container in trust_hir: two executions of the same query can see different orders', loc=fn.loc(b))
                continue
            if not flds:
                continue
            r3.saw()
            fname = k.split('::{closure')[0].split('::')[-1]
            for f in flds:
                short = f.split('::')[-1]
                key = 'history-order|%s|%s' % (fname, short)
                rv = R3_REVIEWED.get((fname, short))
                if rv is None:
                    r3.bad(key, '%s iterates %s, whose order depends on the add/remove history, and is not in the reviewed table (sort the result or feed an order-insensitive sink)' % (fname, short), loc=fn.loc(b))
                elif rv[0] == 'sorted':
                    sort = fn.blocks_calling(lambda n: re.search(r'<impl \[T\]>::sort', n) is not None)
                    if sort and all(s in fn.reach_after(b) for s in sort):
                        r3.ok(key, loc=fn.loc(b), detail='followed by a sort')
                    else:
                        r3.bad(key, '%s iterates %s and no longer sorts the result' % (fname, short), loc=fn.loc(b))
                else:
                    r3.excepted(key, '%s: %s' % rv, loc=fn.loc(b))

    # ------------------------------------------------------------------ R4
    r4 = ctx.rule('C13.R4', 'backdating equality is structural: every PartialEq reachable from a tracked query\'s values_equal on a project type is derived, or compares every observable field', floor=20, floor_what='equality impls under values_equal')
    ve = sorted(k for k in fx.fns if k.endswith('salsa::function::Configuration>::values_equal') and 'trust_hir' in k)
    if len(ve) < len(roots):
        r4.bad('anchor-missing|values_equal', 'found %d values_equal bodies for %d tracked queries' % (len(ve), len(roots)))
    eq_impl = {}
    for im in fx.impls:
        if re.match(r'core::cmp::PartialEq(<.*>)?$', im.get('trait', '')):
            for _, m in im['methods']:
                if m.endswith('::eq'):
                    eq_impl[m] = im
    all_reads = None
    seen_eq = set()
    for v in ve:
        for n in sorted(cg.reach([v])):
            im = eq_impl.get(n)
            if im is None or n in seen_eq or not im['self'].startswith(('trust_hir', 'trust_syntax')):
                continue
            seen_eq.add(n)
            r4.saw()
            ty = im['self'].split('<')[0]
            key = 'eq|%s' % ty.split('::', 1)[1]
            rec = fx.fns.get(n)
            if im.get('derived'):
                r4.ok(key)
                continue
            adt = fx.adts.get(ty)
            if adt is None or rec is None or adt.get('enum'):
                r4.bad(key, 'salsa compares results of a tracked query with a hand-written PartialEq for %s that cannot be checked field by field: an equality that ignores part of the value makes salsa keep stale dependents (backdating)' % ty, loc='%s:%d' % (rec['file'], rec['line']) if rec else None)
                continue
            fields = [f[0] for f in adt['variants'][0]['fields']]
            tname = ty.split('::')[-1]
            read = set()
            todo, done = [n], set()
            while todo:     # the eq body and the closures/helpers of the same impl it calls
                x = todo.pop()
                if x in done or x not in fx.fns:
                    continue
                done.add(x)
                for ch in field_reads(fx.fns[x]):
                    for f in ch:
                        if '.' in f and f.rsplit('.', 1)[0].endswith(tname):
                            read.add(f.rsplit('.', 1)[1])
                todo.extend(c for c in fx.closures_of(x))
            missing = [f for f in fields if f not in read]
            if missing and all_reads is None:
                all_reads = {}
                for k2, rec2 in fx.fns.items():
                    if k2 == n or k2 in derived:
                        continue
                    for ch in field_reads(rec2):
                        for f in ch:
                            if '.' not in f:
                                continue
                            all_reads.setdefault(f.rsplit('.', 1)[0].split('::')[-1] + '.' + f.rsplit('.', 1)[1], k2)
            observable = [f for f in missing if (tname + '.' + f) in (all_reads or {})]
            if not observable:
                r4.ok(key, detail='hand-written, compares every observable field')
            else:
                r4.bad(key, 'the hand-written PartialEq for %s ignores the field(s) %s, which other code reads (e.g. %s): salsa uses this equality to decide whether dependents of a tracked query must re-run, so a change confined to those fields leaves other files\' answers stale' % (
                    ty, ', '.join(observable), all_reads[tname + '.' + observable[0]]), loc='%s:%d' % (rec['file'], rec['line']))


def _must_pass_on_some(fn, wb, targets):
    """remove_source_text: `if self.sources.remove(..).is_none() { return }` — on the Some side every path passes targets"""
    pos, neg, _ = call_result_edges(fn, wb)
    # the result is tested through is_none(): locate that test
    for b, nm, t in fn.calls(lambda n: n.endswith('::is_none')):
        p2, n2, _ = call_result_edges(fn, b)
        starts = [x for (_, x) in n2]       # is_none() == false
        if starts:
            return fn.must_pass_from(starts, targets, removed_edges=p2)
    if pos:
        return fn.must_pass_from([x for (_, x) in pos], targets, removed_edges=neg)
    return fn.must_pass_from(list(fn.g.get(wb, [])), targets)


def _closure_sets_text(fx, cid):
    fn = F(fx.fns[cid])
    return bool(fn.calls(lambda n: n.endswith('SourceInput::set_text') or n.endswith('SourceInput::new')))
