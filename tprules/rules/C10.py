"""C10 — retain file: lossless codec and crash-atomic save.

Decided statically: (R1) the file store saves through create-temp -> write_all -> fsync ->
rename(temp, final) on every path to Ok and never opens the final path for writing;
(R2) encoder and decoder agree per value variant on the tag and on the sequence of primitive
widths, the string helper writes the length it reads; (R3) counts read from the file never
size an allocation unsanitised; (R4) decoder recursion has a depth bound; (R5) the reader
primitives bounds-check before slicing and the save bookkeeping happens only after a
successful store.
"""
import re

from ..cfg import F, op_local, place_fields
from ..gates import call_result_edges, guarded, unguarded_path, compare_seeds, test_edges
from ..prov import origins, operand_origins
from ..taint import tainted_sinks
from ..recursion import check_cycles

CRATES = ['trust_runtime']
NODEFAULT_OK = True
EXPLANATION = __doc__

R = 'trust_runtime::retain::'
STORE_IMPL = '<trust_runtime::retain::FileRetainStore as trust_runtime::retain::RetainStore>::store'
CREATE = re.compile(r'^std::fs::File::(create|create_new)$|^std::fs::OpenOptions::open$|^std::fs::write$')
WRITE_ALL = re.compile(r'Write>::write_all$|Write::write_all$|::write_all$')
SYNC = re.compile(r'^std::fs::File::(sync_all|sync_data)$')
RENAME = re.compile(r'^std::fs::rename$')
DERIVE = re.compile(r'Path::(with_file_name|with_extension|join|with_added_extension)$|PathBuf::(push|set_extension|set_file_name)$')
PATH_PASS = re.compile(r'Path::(as_os_str|to_path_buf|as_ref)$|PathBuf::(as_path|as_ref)$|AsRef<.*>>::as_ref$|Deref>::deref$|::clone$|Borrow<.*>>::borrow$')
SIZES = {'i8': 1, 'u8': 1, 'i16': 2, 'u16': 2, 'i32': 4, 'u32': 4, 'f32': 4, 'i64': 8, 'u64': 8, 'f64': 8, 'i128': 16, 'u128': 16}


def run(ctx):
    fx, cg = ctx.fx, ctx.cg
    _r1(ctx)
    _r2(ctx)
    # ------------------------------------------------------------------ R3
    r3 = ctx.rule('C10.R3', 'counts read from the retain file never size an allocation unsanitised', floor=2, floor_what='allocation sinks in the decoder')
    src = lambda n: re.search(r'retain::RetainReader::<?.*>?::read_(u32|u64|i32|i64)$|retain::RetainReader.*::read_(u32|u64|i32|i64)$', n) is not None
    for k in sorted(fx.fns):
        if not k.startswith(R):
            continue
        fn = F(fx.fns[k])
        for b, nm, tainted in tainted_sinks(fn, src):
            r3.saw()
            key = '%s|%s' % (k[len(R):], nm.split('::')[-1])
            if 'encode' in k:
                r3.ok(key, loc=fn.loc(b), detail='encoder side')
            elif tainted:
                r3.bad(key, 'allocation sized by a count read from the retain file (a few bytes request gigabytes: the process aborts instead of load() returning an error)', loc=fn.loc(b))
            else:
                r3.ok(key, loc=fn.loc(b), detail='size argument sanitised (min/clamp) or not file-derived')
    # ------------------------------------------------------------------ R4
    r4 = ctx.rule('C10.R4', 'every recursion cycle of the retain decoder carries a depth bound', floor=1, floor_what='recursion cycles')
    check_cycles(ctx, r4, lambda k: k.startswith(R) and 'decode' in k, 'cycle')
    _r5(ctx)


def _r1(ctx):
    fx, cg = ctx.fx, ctx.cg
    r1 = ctx.rule('C10.R1', 'file store saves via create-temp -> write_all -> fsync -> rename(temp, final); the final path is never opened for writing', floor=5)
    if STORE_IMPL not in fx.fns:
        r1.bad('anchor-missing|store', 'FileRetainStore::store not found')
        return
    reach = [n for n in cg.reach([STORE_IMPL]) if n in fx.fns and n.startswith(R)]
    writers = [n for n in reach if F(fx.fns[n]).calls(lambda x: CREATE.search(x) is not None or RENAME.search(x) is not None)]
    r1.saw(len(reach))
    if len(writers) != 1:
        r1.bad('shape|writer', 'expected the save protocol in one function reachable from FileRetainStore::store, found %s' % writers)
        return
    fn = F(fx.fns[writers[0]])
    r1.saw(len(fn.g))
    creates = fn.calls(lambda n: CREATE.search(n) is not None)
    writes = fn.calls(lambda n: WRITE_ALL.search(n) is not None)
    syncs = fn.calls(lambda n: SYNC.search(n) is not None)
    renames = fn.calls(lambda n: RENAME.search(n) is not None)
    oks = [b for b in fn.g for s in fn.bbs[b]['s'] if s[0] == 'A' and s[1][0] == 0 and s[2][0] == 'agg' and s[2][1].endswith('Result::Ok')]
    # the function may also return the rename's mapped result directly: treat Return blocks as Ok candidates guarded by rename pos edges
    final_params = [i for i in range(1, fn.r['argc'] + 1) if 'Path' in fn.local_ty(i)]

    def path_origin(o):
        oo = operand_origins(fn, o, extra_pass=lambda n: PATH_PASS.search(n) is not None)
        derived = any(x[0] == 'call' and DERIVE.search(x[2]) for x in oo)
        is_final = any(x[0] == 'arg' and x[1] in final_params for x in oo) and not derived
        return derived, is_final, oo
    if len(creates) != 1:
        r1.bad('create-temp', 'expected exactly one file creation in the save routine, found %d' % len(creates), loc=fn.loc(0))
        return
    cb, cnm, ct = creates[0]
    derived, is_final, oo = path_origin(ct['a'][0])
    if cnm.endswith('fs::write'):
        r1.bad('create-temp', 'save uses fs::write (truncate + write in place, no fsync)', loc=fn.loc(cb))
    elif is_final or not derived:
        r1.bad('create-temp', 'the retain file itself is created/truncated in place: a crash between truncate and write loses the previous snapshot', loc=fn.loc(cb))
    else:
        r1.ok('create-temp', loc=fn.loc(cb))
    if not renames:
        r1.bad('rename', 'no fs::rename(temp, final): the new snapshot never replaces the old one atomically', loc=fn.loc(0))
        return
    rb, rnm, rt = renames[0]
    d0, f0, o0 = path_origin(rt['a'][0])
    d1, f1, o1 = path_origin(rt['a'][1])
    if d0 and f1:
        r1.ok('rename', loc=fn.loc(rb))
    else:
        r1.bad('rename', 'rename is not (temp -> final): source derived=%s, destination is the final path=%s' % (d0, f1), loc=fn.loc(rb))
    if not writes:
        r1.bad('write', 'no write_all on the temp file', loc=fn.loc(0))
        return
    if not syncs:
        r1.bad('fsync', 'the temp file is renamed over the retain file without sync_all/sync_data: after a crash the new name can point at empty or partial data', loc=fn.loc(rb))
    wb = writes[0][0]
    # order by dominance through success edges
    pos_c, _, _ = call_result_edges(fn, cb)
    pos_w, _, _ = call_result_edges(fn, wb)
    if pos_c and guarded(fn, wb, pos_c):
        r1.ok('order|create<write', loc=fn.loc(wb))
    else:
        r1.bad('order|create<write', 'write_all is reachable without a successful create of the temp file', loc=fn.loc(wb))
    if syncs:
        sb = syncs[0][0]
        pos_s, _, _ = call_result_edges(fn, sb)
        if pos_w and guarded(fn, sb, pos_w):
            r1.ok('order|write<fsync', loc=fn.loc(sb))
        else:
            r1.bad('order|write<fsync', 'fsync is reachable without a successful write_all (or precedes it)', loc=fn.loc(sb))
        if pos_s and guarded(fn, rb, pos_s):
            r1.ok('order|fsync<rename', loc=fn.loc(rb))
        else:
            r1.bad('order|fsync<rename', 'rename is reachable without a successful fsync of the temp file: a crash after the rename can expose unsynced data', loc=fn.loc(rb),
                   witness={'path_lines': fn.path_lines(unguarded_path(fn, rb, pos_s))})
        # the synced handle is the created one
        so = operand_origins(fn, syncs[0][2]['a'][0])
        if any(o[0] == 'call' and CREATE.search(o[2]) for o in so):
            r1.ok('fsync-handle')
        else:
            r1.bad('fsync-handle', 'sync_all is not applied to the handle returned by the temp-file create', loc=fn.loc(sb))
    # every Ok passes the rename's success edge
    pos_r, _, _ = call_result_edges(fn, rb)
    direct_ret = (not rt['d'][1] and rt['d'][0] == 0)
    if direct_ret or (oks and pos_r and all(guarded(fn, b, pos_r) for b in oks)) or _returns_mapped(fn, rb):
        r1.ok('ok-after-rename', loc=fn.loc(rb))
    else:
        r1.bad('ok-after-rename', 'the save routine can report success without the rename having succeeded', loc=fn.loc(oks[0]) if oks else fn.loc(0))
    # store() encodes before it touches the file and propagates the writer's error
    st = F(fx.fns[STORE_IMPL])
    enc = st.blocks_calling(lambda n: n == R + 'encode_snapshot')
    wr = st.blocks_calling(lambda n: n == writers[0])
    if enc and wr and st.dominates(enc[0], wr[0]):
        pos_e, _, _ = call_result_edges(st, enc[0])
        if pos_e and guarded(st, wr[0], pos_e):
            r1.ok('encode-before-write', loc=st.loc(enc[0]))
        else:
            r1.bad('encode-before-write', 'the file is written although encoding the snapshot failed', loc=st.loc(wr[0]))
    else:
        r1.bad('encode-before-write', 'store() does not encode the snapshot before writing', loc=st.loc(0))


def _returns_mapped(fn, rb):
    """the rename result flows (through map_err) into _0"""
    t = fn.term(rb)
    d = t['d'][0]
    for b, nm, t2 in fn.calls(lambda n: re.search(r'Result::<.*>::map_err$', n) is not None):
        if t2['a'] and t2['a'][0][0] in ('c', 'm') and t2['a'][0][1][0] == d and not t2['d'][1] and t2['d'][0] == 0:
            return True
    return False


_FX = [None]


def _expand(refs, enc, depth=0):
    """an arm that delegates to another function of the module (a helper extracted from it) stands for that function's
    own sequence of reads / writes: replace the reference by the helper's calls in block order"""
    fx = _FX[0]
    out = []
    for r in refs:
        known = re.search(r'retain::(encode_string|encode_value|decode_value|decode_value_at)$|RetainReader.*::read_\w+$|ValueTag::', r) is not None
        rec = None
        if fx is not None and not known and r.startswith(R) and depth < 2:
            rec = fx.fns.get(r) or getattr(fx, 'dropped_helpers', {}).get(r)
        if rec is None or rec.get('kind') == 'Closure':
            out.append(r)
            continue
        f2 = F(rec)
        seq = [f2.call_name(b) for b in sorted(f2.g) if f2.term(b)['k'] == 'call' and f2.call_name(b)]
        out.extend(_expand(seq, enc, depth + 1))
    return out


def _widths(refs, enc):
    """sequence of primitive widths / helper marks in an arm body, in source order"""
    out = []
    for r in _expand(refs, enc):
        m = re.search(r'<impl (\w+)>::to_le_bytes$', r)
        if enc and m:
            out.append(SIZES.get(m.group(1), '?'))
            continue
        if enc and r.endswith('::push'):
            out.append(1)
            continue
        if enc and r == R + 'encode_string':
            out.append('S')
        elif enc and r == R + 'encode_value':
            out.append('V')
        m = re.search(r'RetainReader.*::read_(\w+)$', r)
        if not enc and m:
            w = m.group(1)
            if w == 'string':
                out.append('S')
            elif w == 'bytes':
                out.append('B')
            else:
                out.append(SIZES.get(w, '?'))
        elif not enc and re.search(r'retain::decode_value(_at)?$', r):
            out.append('V')
    return out


def _r2(ctx):
    fx = ctx.fx
    _FX[0] = fx
    r2 = ctx.rule('C10.R2', 'encoder and decoder agree per value variant on tag and primitive width sequence', floor=28, floor_what='value variants')
    enc_id = R + 'encode_value'
    dec_ids = [k for k in fx.fns if re.match(r'trust_runtime::retain::decode_value(_at)?$', k)]
    if enc_id not in fx.fns or not dec_ids:
        r2.bad('anchor-missing|codec', 'encode_value / decode_value not found')
        return
    enc = {}
    wild = False
    for m in fx.matches_in(enc_id):
        if not m['sty'].endswith('value::types::Value'):
            continue
        for arm in m['arms']:
            vs = [re.search(r'Value::(\w+)', p).group(1) for p in arm['pats'] if re.search(r'Value::(\w+)', p)]
            if any(p == 'wild' or p.startswith('bind:') for p in arm['pats']):
                wild = True
            tags = [r.split('::')[-1] for r in arm['refs'] if r.startswith(R + 'ValueTag::')]
            errs = any('RuntimeError::RetainStore' in r for r in arm['refs'])
            w = _widths(arm['refs'], True)
            for v in vs:
                enc[v] = (tags, w, errs, arm['line'])
    dec = {}
    dwild_err = False
    for did in dec_ids:
        for m in fx.matches_in(did):
            if m['sty'] != 'u8':
                continue
            for arm in m['arms']:
                g = [r.split('::')[-1] for r in (arm['guard'] or []) if r.startswith(R + 'ValueTag::')]
                vals = [r.split('::')[-1] for r in arm['refs'] if r.startswith('trust_runtime::value::types::Value::')]
                w = _widths(arm['refs'], False)
                if not g:
                    if any('RuntimeError::RetainStore' in r for r in arm['refs']):
                        dwild_err = True
                    continue
                for t in g:
                    dec[t] = (vals, w, arm['line'])
    r2.saw(len(enc) + len(dec))
    f = fx.fns[enc_id]['file']
    if wild:
        r2.bad('encode-wildcard', 'encode_value has a wildcard arm: a new Value variant would be silently dropped or mis-tagged', loc='%s:%d' % (f, fx.fns[enc_id]['line']))
    else:
        r2.ok('encode-exhaustive')
    if dwild_err:
        r2.ok('decode-unknown-tag-errors')
    else:
        r2.bad('decode-unknown-tag-errors', 'decode_value has no error arm for unknown tags', loc='%s:%d' % (f, fx.fns[dec_ids[0]]['line']))
    for v in sorted(enc):
        tags, w, errs, line = enc[v]
        key = 'variant|%s' % v
        loc = '%s:%d' % (f, line)
        if errs and not tags:
            if v in ('Reference', 'Instance'):
                r2.ok(key, loc=loc, detail='rejected on encode')
            else:
                r2.bad(key, 'Value::%s is rejected by the encoder (retainable values must round-trip)' % v, loc=loc)
            continue
        probs = []
        if tags != [v]:
            probs.append('encoder writes tag %s for Value::%s' % (tags, v))
        if v not in dec:
            probs.append('decoder has no arm for tag %s' % v)
        else:
            vals, dw, dline = dec[v]
            if v not in vals:
                probs.append('decoder builds %s for tag %s' % (sorted(set(vals)), v))
            ew = w[1:] if w and w[0] == 1 else w      # first push is the tag byte
            if ew != dw:
                probs.append('width sequence differs: encoder %s vs decoder %s' % (ew, dw))
        if probs:
            r2.bad(key, '; '.join(probs), loc=loc)
        else:
            r2.ok(key, loc=loc, detail='widths %s' % (w,))
    for t in sorted(dec):
        if t not in enc:
            r2.bad('variant|%s' % t, 'decoder accepts tag %s that the encoder never writes' % t, loc='%s:%d' % (f, dec[t][2]))
    # string helper: the length prefix written is the byte length that is written, and read_string reads len bytes
    es = fx.fns.get(R + 'encode_string')
    if es is None:
        r2.bad('anchor-missing|encode_string', 'encode_string not found')
    else:
        fn = F(es)
        r2.saw(len(fn.g))
        lens = fn.calls(lambda n: n.endswith('::len'))
        ext = fn.calls(lambda n: n.endswith('::extend_from_slice'))
        ok = False
        if lens and len(ext) == 2:
            # the slice whose len() is taken is the slice that is appended
            lo = operand_origins(fn, lens[0][2]['a'][0])
            so = operand_origins(fn, ext[1][2]['a'][1])
            lc = {o[2] for o in lo if o[0] == 'call'}
            sc = {o[2] for o in so if o[0] == 'call'}
            if lc and lc == sc and any(n.endswith('as_bytes') for n in lc) and not fn.calls(lambda n: n.endswith('::chars') or n.endswith('::count')):
                ok = True
        if ok:
            r2.ok('string-length-prefix', loc=fn.loc(0))
        else:
            r2.bad('string-length-prefix', 'encode_string does not write len(bytes) followed by the same bytes (the decoder reads the prefix as a byte count)', loc=fn.loc(0))
    rs = [k for k in fx.fns if re.search(r'retain::RetainReader.*::read_string$', k)]
    if rs:
        fn = F(fx.fns[rs[0]])
        rb = fn.calls(lambda n: n.endswith('::read_bytes'))
        ru = fn.calls(lambda n: n.endswith('::read_u32'))
        if rb and ru and any(o[0] == 'call' and o[2].endswith('::read_u32') for o in operand_origins(fn, rb[0][2]['a'][1])):
            r2.ok('string-read-length', loc=fn.loc(rb[0][0]))
        else:
            r2.bad('string-read-length', 'read_string does not read exactly the prefixed number of bytes', loc=fn.loc(0))
    # snapshot framing: count prefix and per-entry (string, value)
    for fid, enc_side in ((R + 'encode_snapshot', True), (R + 'decode_snapshot', False)):
        if fid not in fx.fns:
            r2.bad('anchor-missing|%s' % fid.split('::')[-1], 'function not found')


def _r5(ctx):
    fx, cg = ctx.fx, ctx.cg
    r5 = ctx.rule('C10.R5', 'reader primitives bounds-check before slicing; save bookkeeping only after a successful store', floor=3)
    rb = [k for k in fx.fns if re.search(r'retain::RetainReader.*::read_bytes$', k)]
    if not rb:
        r5.bad('anchor-missing|read_bytes', 'RetainReader::read_bytes not found')
    else:
        fn = F(fx.fns[rb[0]])
        r5.saw(len(fn.g))
        # comparison end > data.len() whose true edge returns Err; the slice index is behind the false edge
        def pred(op, a, c, bb):
            if op not in ('Gt', 'Ge', 'Lt', 'Le'):
                return None
            oa = {o[2] for o in operand_origins(fn, a) if o[0] == 'call'}
            oc = {o[2] for o in operand_origins(fn, c) if o[0] == 'call'}
            if any(n.endswith('::len') for n in oc) and (any('saturating_add' in n or 'checked_add' in n for n in oa) or any(o[0] == 'op' for o in operand_origins(fn, a))):
                return op in ('Lt', 'Le')
            if any(n.endswith('::len') for n in oa):
                return op in ('Gt', 'Ge')
            return None
        seeds = compare_seeds(fn, pred)
        pos, neg, _ = test_edges(fn, seeds) if seeds else (set(), set(), [])
        idx = fn.calls(lambda n: re.search(r'Index<.*>::index$|::get_unchecked$', n) is not None)
        if pos and idx and all(guarded(fn, b, pos) for b, _, _ in idx):
            r5.ok('read_bytes-guard', loc=fn.loc(idx[0][0]))
        else:
            r5.bad('read_bytes-guard', 'the slice in read_bytes is reachable without passing the end <= len check (out-of-range read panics)', loc=fn.loc(idx[0][0]) if idx else fn.loc(0))
        wrap = fn.calls(lambda n: re.search(r'::(saturating_add|checked_add)$', n) is not None)
        if wrap:
            r5.ok('read_bytes-no-wrap')
        else:
            r5.bad('read_bytes-no-wrap', 'offset + len is computed with a wrapping/overflowing add', loc=fn.loc(0))
    # constant indexes into a slice just read with a constant length
    for k in sorted(fx.fns):
        if not re.search(r'retain::RetainReader.*::read_\w+$', k) or k.endswith('read_bytes'):
            continue
        fn = F(fx.fns[k])
        bc = [b for b in fn.g if fn.term(b)['k'] == 'assert' and fn.term(b)['m'] == 'BoundsCheck']
        if not bc:
            continue
        r5.saw(len(bc))
        rbs = fn.calls(lambda n: n.endswith('::read_bytes'))
        from ..arith import const_int
        n_const = const_int(fn, rbs[0][2]['a'][1]) if rbs else None
        worst = -1
        okc = True
        for b in bc:
            v = const_int(fn, fn.term(b)['ops'][1])
            if v is None:
                okc = False
            else:
                worst = max(worst, v)
        if okc and n_const is not None and worst < n_const:
            r5.ok('const-index|%s' % k.split('::')[-1], detail='indexes 0..%d of a %d-byte read' % (worst, n_const))
        else:
            r5.bad('const-index|%s' % k.split('::')[-1], 'indexes up to %s into a slice of %s bytes' % (worst, n_const), loc=fn.loc(bc[0]))
    rule_save_bookkeeping(ctx, r5)


def rule_save_bookkeeping(ctx, r5):
    """RetainManager::save_snapshot: bookkeeping only after the store's Ok edge (shared with C09)"""
    fx, cg = ctx.fx, ctx.cg
    # RetainManager::save_snapshot: bookkeeping only after the store's Ok edge
    sv = fx.fns.get(R + 'RetainManager::save_snapshot')
    if sv is None:
        r5.bad('anchor-missing|save_snapshot', 'RetainManager::save_snapshot not found')
    else:
        fn = F(sv)
        r5.saw(len(fn.g))
        st = fn.calls(lambda n: n.endswith('RetainStore::store'))
        if len(st) != 1:
            r5.bad('save-bookkeeping', 'expected one store() call in save_snapshot', loc=fn.loc(0))
        else:
            sb = st[0][0]
            pos, neg, _ = call_result_edges(fn, sb)
            # the error world of the store call: everything reachable from it without following one of its success
            # edges; no bookkeeping write may lie there (a path that never called store() is not concerned)
            after = fn.reach(list(fn.g.get(sb, ())), removed_edges=pos) if pos else fn.reach_after(sb)
            bad = []
            for b in after:
                for fld in ('RetainManager.last_snapshot', 'RetainManager.dirty', 'RetainManager.last_save'):
                    if fn.assigns_field(b, lambda f, fld=fld: f.endswith(fld)):
                        bad.append((b, fld))
            # ... and not before it either: a write (assignment or `&mut field` handed to a call such as Option::insert)
            # on a path that goes on to call store() records the snapshot as saved before it was written
            for b in fn.g:
                if sb not in fn.reach_after(b) and b != sb:
                    continue
                for fld in ('RetainManager.last_snapshot', 'RetainManager.dirty', 'RetainManager.last_save'):
                    wrote = fn.assigns_field(b, lambda f, fld=fld: f.endswith(fld)) and b != sb
                    for s_ in fn.bbs[b]['s']:
                        if s_[0] == 'A' and s_[2][0] == 'ref' and 'Mut' in s_[2][1] and place_fields(s_[2][2]) and place_fields(s_[2][2])[-1].endswith(fld):
                            wrote = True
                    if wrote and b != sb:
                        bad.append((b, fld + ' (before the store call)'))
            if bad:
                r5.bad('save-bookkeeping', 'save_snapshot updates %s although store() failed: the failed write is remembered as saved and later saves of the same values are skipped' % bad[0][1].split('.')[-1], loc=fn.loc(bad[0][0]))
            else:
                r5.ok('save-bookkeeping', loc=fn.loc(sb))


def _edges_not_via(fn, sb):
    """edges that enter blocks unreachable from sb are irrelevant; helper returns edges bypassing sb entirely (paths that never called store)"""
    # blocks reachable from entry while avoiding sb: bookkeeping there (the 'unchanged snapshot' shortcut) is legitimate
    avoid = fn.reach([0], avoid={sb})
    out = set()
    for a in avoid:
        for b in fn.g.get(a, ()):
            if b in avoid:
                out.add((a, b))
    return set()
