"""C09 — restart semantics: warm keeps exactly RETAIN data, cold equals a fresh start.

Decided statically: (R1) sibling agreement between warm restart and the retain snapshot
functions on *which* declarations are retained; (R2) every piece of runtime state the scan
cycle can write is re-initialised by restart (field write sets over the call graph) or is a
reviewed exemption; (R3) a function that re-mints program instances also rebuilds the tables
that hold references to instances; (R4) the retain policy table is exactly Retain|Persistent
and the retainability filter is shared; (R5) in the resource loops a restart is followed by a
retain reload before the next cycle; (R6) restart and register_task seed task state from the
same sources. Values after restart and equivalence with a fresh runtime in general are not
decided.
"""
import re

from ..cfg import F, op_local, place_fields
from ..gates import call_result_edges, guarded, unguarded_path
from ..prov import origins, operand_origins
from ..cg import field_writes, field_reads

CRATES = ['trust_runtime']
NODEFAULT_OK = True
EXPLANATION = __doc__

RTI = '<impl trust_runtime::runtime::core::Runtime>::'
RESTART = 'trust_runtime::runtime::restart::' + RTI + 'restart'
SNAP = 'trust_runtime::runtime::restart::' + RTI + 'retain_snapshot'
APPLY = 'trust_runtime::runtime::restart::' + RTI + 'apply_retain_snapshot'
EXEC = 'trust_runtime::runtime::cycle::' + RTI + 'execute_cycle'
REGISTER = 'trust_runtime::runtime::core::Runtime::register_task'
STATE_ADTS = re.compile(r'^trust_runtime::(runtime::core::Runtime|memory::VariableStorage|task::TaskState|io::IoInterface|runtime::faults::FaultSubsystem|'
                        r'retain::RetainManager|runtime::io_subsystem::IoSubsystem|runtime::metrics::MetricsSubsystem|runtime::watchdog)\.')

R2_EXEMPT = {
    'trust_runtime::runtime::core::Runtime.debug': 'take/restore pair around program execution (C01.R1b); the hook object survives a restart by design',
    'trust_runtime::runtime::core::Runtime.next_thread_id': 'debugger thread ids are meant to be stable across restarts',
    'trust_runtime::runtime::core::Runtime.background_thread_id': 'debugger thread ids are meant to be stable across restarts',
    'trust_runtime::runtime::core::Runtime.retain': 'container of RetainManager (decided per field)',
    'trust_runtime::runtime::core::Runtime.io': 'container of IoSubsystem (decided per field)',
    'trust_runtime::runtime::core::Runtime.metrics': 'container of MetricsSubsystem: counters are diagnostics, read by no program-visible value',
    'trust_runtime::runtime::io_subsystem::IoSubsystem.interface': 'container of IoInterface (decided per field)',
    'trust_runtime::runtime::io_subsystem::IoSubsystem.drivers': 'driver objects keep their connections across a restart by design; health is refreshed every cycle',
    'trust_runtime::retain::RetainManager.dirty': 'save bookkeeping: set again by the first cycle after restart',
    'trust_runtime::retain::RetainManager.last_snapshot': 'cache of the last written snapshot: only used to skip identical writes',
    'trust_runtime::memory::VariableStorage.retain': 'retain-area shadow used by forced/debug writes; restored by load_retain_store after restart (C09.R5)',
}


def _reach_fields(ctx, root, derived):
    fx, cg = ctx.fx, ctx.cg
    R = cg.reach([root], stop=lambda n: n in derived)
    w = {}
    recreated = set()
    for n in R:
        rec = fx.fns.get(n)
        if rec is None or n in derived:
            continue
        a, b = field_writes(rec)
        for ch in a | b:
            for f in ch:
                w.setdefault(f, n)
        for bb in rec['bbs']:
            if bb['c']:
                continue
            for s in bb['s']:
                if s[0] == 'A' and s[2][0] == 'agg' and s[2][1].startswith('adt:trust_runtime::'):
                    recreated.add(s[2][1][4:].rsplit('::', 1)[0])
            t = bb['t']
            if t['k'] == 'call' and 'def' in t['f']:
                nm = t['f'].get('inst') or t['f']['def']
                m = re.match(r'(trust_runtime::[\w:]+)::(new|default)$', nm)
                if m:
                    recreated.add(m.group(1))
    return w, recreated, R


def run(ctx):
    fx, cg = ctx.fx, ctx.cg
    derived = {m for im in fx.impls if im.get('derived') for _, m in im['methods']}

    # ------------------------------------------------------------------ R1
    r1 = ctx.rule('C09.R1', 'warm restart and the retain snapshot functions agree on which declarations are retained', floor=2)
    for f in (RESTART, SNAP, APPLY):
        if f not in fx.fns:
            r1.bad('anchor-missing|%s' % f.split('::')[-1], 'function not found')
            return

    def retain_sources(fid):
        out = set()
        for ch in field_reads(fx.fns[fid]):
            for f in ch:
                if f.endswith('.retain') and not f.startswith('trust_runtime::runtime::core::Runtime.'):
                    out.add(f)
        return out
    rs = retain_sources(RESTART)
    r1.saw(len(rs))
    for sib in (SNAP, APPLY):
        ss = retain_sources(sib)
        r1.saw(len(ss))
        missing = sorted(rs - ss)
        name = sib.split('::')[-1]
        rec = fx.fns[sib]
        if missing:
            r1.bad('retained-set|%s' % name, '%s does not consult %s although warm restart retains those declarations: a power cycle (save, new process, load) loses variables a warm restart keeps' % (
                name, [m.split('::')[-1] for m in missing]), loc='%s:%d' % (rec['file'], rec['line']))
        else:
            r1.ok('retained-set|%s' % name, detail=sorted(x.split('::')[-1] for x in ss))

    # ------------------------------------------------------------------ R2
    r2 = ctx.rule('C09.R2', 'every runtime-state field the scan cycle can write is re-initialised by restart or is a reviewed exemption', floor=10, floor_what='cycle-written state fields')
    if EXEC in fx.fns:
        wc, _, Rc = _reach_fields(ctx, EXEC, derived)
        wr, recreated, Rr = _reach_fields(ctx, RESTART, derived)
        r2.note('%d bodies reachable from the cycle, %d from restart; structs re-created by restart: %s' % (len(Rc), len(Rr), sorted(x.split('::')[-1] for x in recreated if 'task::TaskState' in x or 'Frame' in x)[:5]))
        for f in sorted(wc):
            if not STATE_ADTS.match(f):
                continue
            r2.saw()
            adt = f.rsplit('.', 1)[0]
            key = 'reset|%s' % f.replace('trust_runtime::', '')
            if f in wr:
                r2.ok(key, detail='written by restart via %s' % wr[f].split('::')[-1])
            elif adt in recreated:
                r2.ok(key, detail='%s is re-created by restart' % adt.split('::')[-1])
            elif f in R2_EXEMPT:
                r2.excepted(key, R2_EXEMPT[f])
            else:
                rec = fx.fns.get(wc[f])
                r2.bad(key, 'the scan cycle writes %s (in %s) but restart never re-initialises it: a cold restart is not equivalent to a fresh runtime' % (f.split('::')[-1], wc[f].split('::')[-1]),
                       loc='%s:%d' % (rec['file'], rec['line']) if rec else None)

    # ------------------------------------------------------------------ R3
    r3 = ctx.rule('C09.R3', 'a function that re-mints program instances also rebuilds the tables that hold references to instances', floor=1)
    minters = sorted({a for a, _, _ in cg.callers('trust_runtime::instance::create_program_instance')})
    binder_pat = re.compile(r'register_program_instances$|register_access_bindings$|attach_fb_instances_to_tasks$|IoInterface::(bind|bind_ref|bind_typed|bind_ref_typed|bind_ref_named_typed)$|access::AccessMap::(bind|insert)$')
    r3.saw(len(minters))
    for m in minters:
        if not m.startswith('trust_runtime::runtime::'):
            r3.ok('mint|%s' % m.split('::', 2)[-1], detail='build-time construction (bindings are created afterwards by the same builder)')
            continue
        R = cg.reach([m])
        rebuilds = sorted(n for n in R if binder_pat.search(n))
        fn = F(fx.fns[m])
        callers = {a.split('::{closure')[0] for a, _, _ in cg.callers(m)}
        if m != RESTART and callers and all(c.startswith('trust_runtime::harness::') or c.startswith('trust_runtime_bin::') for c in callers):
            r3.ok('mint|%s' % m.split('::', 2)[-1], detail='construction API called only by the builders (%s), before any binding exists' % sorted(c.split('::')[-1] for c in callers)[:3])
            continue
        if rebuilds:
            r3.ok('mint|%s' % m.split('::', 2)[-1], detail=rebuilds[:3])
        else:
            r3.bad('mint|%s' % m.split('::')[-1], '%s mints new program instances but rebuilds neither the I/O bindings, the access-path map nor the task FB references, which hold ValueRefs to the old instances: after a restart direct-address inputs no longer reach the program and outputs publish stale values' % m.split('::')[-1],
                   loc=fn.loc(0))

    # ------------------------------------------------------------------ R4
    r4 = ctx.rule('C09.R4', 'retain policy table is exactly Retain|Persistent; the retainability filter is shared by restart and snapshot', floor=3)
    row = 'trust_runtime::runtime::restart::retain_on_warm'
    if row not in fx.fns:
        r4.bad('anchor-missing|retain_on_warm', 'policy table not found')
    else:
        got = set()
        for m in fx.matches_in(row):
            for arm in m['arms']:
                # matches!(..) => true arm lists the accepted variants
                if 'lit:bool:true' in arm['refs']:
                    for p in arm['pats']:
                        if p.startswith('variant:'):
                            got.add(p.split('::')[-1])
        r4.saw(len(got))
        if got == {'Retain', 'Persistent'}:
            r4.ok('policy-table', detail=sorted(got))
        else:
            r4.bad('policy-table', 'retain_on_warm accepts %s (must be exactly Retain and Persistent)' % sorted(got), loc='%s:%d' % (fx.fns[row]['file'], fx.fns[row]['line']))
        users = {a for a, _, _ in cg.callers(row)}
        if {RESTART, SNAP, APPLY} <= {u.split('::{closure')[0] for u in users}:
            r4.ok('policy-shared', detail='restart, retain_snapshot and apply_retain_snapshot all use retain_on_warm')
        else:
            r4.bad('policy-shared', 'restart / retain_snapshot / apply_retain_snapshot no longer share retain_on_warm (users: %s)' % sorted(u.split('::')[-1] for u in users))
    vr = 'trust_runtime::runtime::restart::value_is_retainable'
    if vr in fx.fns:
        users = {a.split('::{closure')[0] for a, _, _ in cg.callers(vr)}
        r4.saw(len(users))
        if {RESTART, SNAP, APPLY} <= users:
            r4.ok('filter-shared')
        else:
            r4.bad('filter-shared', 'value_is_retainable is not applied by all of restart / retain_snapshot / apply_retain_snapshot (users: %s)' % sorted(u.split('::')[-1] for u in users))

    # ------------------------------------------------------------------ R5
    r5 = ctx.rule('C09.R5', 'resource loops: an operator-requested restart is followed by load_retain_store before the next cycle', floor=2)
    for lid in ('trust_runtime::scheduler::run_resource_loop', 'trust_runtime::scheduler::run_resource_loop_with_shared'):
        rec = fx.fns.get(lid)
        if rec is None:
            r5.bad('anchor-missing|%s' % lid.split('::')[-1], 'resource loop not found')
            continue
        fn = F(rec)
        r5.saw(len(fn.g))
        rcs = fn.calls(lambda n: n == RESTART)
        loads = set(fn.blocks_calling(lambda n: n.endswith(RTI + 'load_retain_store')))
        cyc = set(fn.blocks_calling(lambda n: n == EXEC or n.endswith('SharedGlobals::with_lock')))
        n_signal = 0
        for b, nm, t in rcs:
            # operator restart: the mode comes from the restart signal (Option::take), not a literal RestartMode::Warm
            oo = operand_origins(fn, t['a'][1])
            from_signal = not any(o[0] == 'agg' and 'RestartMode::' in o[1] for o in oo)
            if not from_signal:
                continue
            n_signal += 1
            pos, neg, _ = call_result_edges(fn, b)
            # from the Ok edge, every path to a cycle site passes load_retain_store
            starts = [x for (_, x) in pos]
            seen, st, bad = set(), [s for s in starts if s not in loads], None
            while st:
                n = st.pop()
                if n in seen:
                    continue
                seen.add(n)
                if n in cyc:
                    bad = n
                    break
                for s in fn.g.get(n, ()):
                    if s not in seen and s not in loads:
                        st.append(s)
            if bad is None and loads:
                r5.ok('reload-after-restart|%s' % lid.split('::')[-1], loc=fn.loc(b))
            else:
                r5.bad('reload-after-restart|%s' % lid.split('::')[-1], 'after an operator restart the next cycle can run without load_retain_store: retained values saved earlier are not restored', loc=fn.loc(b))
        if n_signal == 0:
            r5.bad('reload-after-restart|%s' % lid.split('::')[-1], 'no restart driven by the restart signal found in the loop', loc=fn.loc(0))

    rule_r7(ctx)
    from .C10 import rule_save_bookkeeping
    r8 = ctx.rule('C09.R8', 'power cycle preserves what a warm restart keeps: a retain save is recorded as done only after the store succeeded', floor=1)
    rule_save_bookkeeping(ctx, r8)
    rule_r9_r10(ctx)

    # ------------------------------------------------------------------ R6
    r6 = ctx.rule('C09.R6', 'restart and register_task seed task state from the same sources', floor=1)
    if REGISTER not in fx.fns:
        r6.bad('anchor-missing|register_task', 'register_task not found')
    else:
        def seeds(fid):
            rec = fx.fns[fid]
            fn = F(rec)
            w, mb = field_writes(rec)
            ts = {ch[-1] for ch in w | mb if ch[-1].startswith('trust_runtime::task::TaskState.')}
            reads_single = any(ch[-1].endswith('TaskConfig.single') for ch in field_reads(rec))
            return ts, reads_single
        a_ts, a_single = seeds(REGISTER)
        b_ts, b_single = seeds(RESTART)
        r6.saw(len(a_ts) + len(b_ts))
        if a_single and not b_single or (a_ts - b_ts):
            r6.bad('task-state-seeding', 'register_task seeds %s from the SINGLE global (reads TaskConfig.single: %s) but restart does not (%s, reads TaskConfig.single: %s): the first cycle after a restart schedules event tasks differently from a fresh runtime' % (
                sorted(x.split('.')[-1] for x in a_ts), a_single, sorted(x.split('.')[-1] for x in b_ts), b_single), loc=F(fx.fns[RESTART]).loc(0))
        else:
            r6.ok('task-state-seeding', detail='both write %s after reading TaskConfig.single' % sorted(x.split('.')[-1] for x in a_ts))
    # restart resets clock, frames, latch, cycle counter (must-pass on the Ok path)
    fn = F(fx.fns[RESTART])
    oks = [b for b in fn.g for s in fn.bbs[b]['s'] if s[0] == 'A' and s[1][0] == 0 and s[2][0] == 'agg' and s[2][1].endswith('Result::Ok')]
    need = {
        'clock': lambda b: fn.assigns_field(b, lambda f: f.endswith('Runtime.current_time')),
        'frames': lambda b: (fn.call_name(b) or '').endswith('VariableStorage::clear_frames'),
        'fault-latch': lambda b: (fn.call_name(b) or '').endswith('FaultSubsystem::clear'),
        'cycle-counter': lambda b: fn.assigns_field(b, lambda f: f.endswith('Runtime.cycle_counter')),
        'retain-cadence': lambda b: (fn.call_name(b) or '').endswith('RetainManager::restart_clock') or fn.assigns_field(b, lambda f: f.endswith('RetainManager.last_save')),
    }
    for what, pred in need.items():
        bl = [b for b in fn.g if pred(b)]
        r6.saw()
        if bl and oks and all(any(fn.dominates(x, ob) for x in bl) for ob in oks):
            r6.ok('restart-resets|%s' % what, loc=fn.loc(bl[0]))
        else:
            r6.bad('restart-resets|%s' % what, 'restart can return Ok without resetting the %s' % what, loc=fn.loc(0))


def rule_r7(ctx):
    """restart phase order: globals are re-initialised before program instances are created (program initialisers may read
    globals), retained program variables are restored after the instances exist"""
    fx = ctx.fx
    r7 = ctx.rule('C09.R7', 'restart phase order: globals re-initialised before program instances are created; retained program variables restored after', floor=2)
    if RESTART not in fx.fns:
        r7.bad('anchor-missing|restart', 'restart not found')
        return
    fn = F(fx.fns[RESTART])
    r7.saw(len(fn.g))
    cpi = fn.blocks_calling(lambda n: n.endswith('instance::create_program_instance'))
    ginit = []
    for b in fn.g:
        for s in fn.bbs[b]['s']:
            if s[0] == 'A' and s[2][0] == 'discr' and place_fields(s[2][1]) and place_fields(s[2][1])[-1].endswith('GlobalVarMeta.init'):
                ginit.append(b)
    ginit += fn.blocks_calling(lambda n: n.endswith('instance::create_fb_instance') or n.endswith('instance::create_class_instance'))
    if not cpi or not ginit:
        r7.bad('phase-order|shape', 'restart shape not recognised (program instance creation: %d sites, global initialisation: %d sites)' % (len(cpi), len(ginit)), loc=fn.loc(0))
        return
    late = [g for g in ginit if any(g in fn.reach_after(c) for c in cpi)]
    if late:
        r7.bad('phase-order|globals-before-programs', 'globals are (re)initialised after program instances were created: program variable initialisers that read a global see its pre-restart value, so a cold restart differs from a fresh runtime', loc=fn.loc(late[0]))
    else:
        r7.ok('phase-order|globals-before-programs', loc=fn.loc(cpi[0]))
    siv = fn.blocks_calling(lambda n: n.endswith('VariableStorage::set_instance_var'))
    early = [b for b in siv if not any(b in fn.reach_after(c) for c in cpi)]
    if siv and not early:
        r7.ok('phase-order|retained-after-instances', loc=fn.loc(siv[0]))
    else:
        r7.bad('phase-order|retained-after-instances', 'retained program variables are written back before the new program instances exist (the values are lost)', loc=fn.loc(early[0]) if early else fn.loc(0))


def rule_r9_r10(ctx):
    fx = ctx.fx
    # ------------------------------------------------------------------ R9
    r9 = ctx.rule('C09.R9', 'a clean stop flushes the retained values unconditionally (not only when the periodic save interval has elapsed)', floor=2, floor_what='resource loops')
    SAVE = re.compile(r'retain::RetainManager::save_snapshot$')

    def unconditional_saver(fid, depth=0):
        """every path of fid reaches RetainManager::save_snapshot (directly or through a local callee that does)"""
        rec = fx.fns.get(fid)
        if rec is None or depth > 3:
            return False
        f2 = F(rec)
        tg = set(f2.blocks_calling(lambda n: SAVE.search(n) is not None))
        for b, nm, t in f2.calls(lambda n: n in fx.fns and n != fid):
            if b not in tg and 'retain' in nm and unconditional_saver(nm, depth + 1):
                tg.add(b)
        if not tg:
            return False
        ok, _ = f2.must_pass_from([0], tg)
        return ok
    for lid in sorted(k for k in fx.fns if re.search(r'trust_runtime::scheduler::run_resource_loop(_with_shared)?$', k)):
        fn = F(fx.fns[lid])
        r9.saw()
        short = lid.split('::')[-1]
        flush = [b for b, nm, t in fn.calls(lambda n: n in fx.fns) if unconditional_saver(nm) and not fn.in_cycle(b)]
        if flush:
            r9.ok('stop-flush|%s' % short, loc=fn.loc(flush[0]))
        else:
            r9.bad('stop-flush|%s' % short, '%s has no unconditional retain save outside the cycle loop: a clean stop between two periodic saves drops every RETAIN change since the last save (a power cycle then loses what a warm restart keeps)' % short, loc=fn.loc(0))

    # ------------------------------------------------------------------ R10
    r10 = ctx.rule('C09.R10', 'every configuration global gets its restart/retain metadata: no iteration of the registration loop skips register_global_meta', floor=1)
    ag = fx.fns.get('trust_runtime::harness::config::apply_globals')
    if ag is None:
        r10.bad('anchor-missing|apply_globals', 'apply_globals not found')
        return
    fn = F(ag)
    regs = set(fn.blocks_calling(lambda n: n.endswith('register_global_meta')))
    r10.saw(len(fn.g))
    loops = [set(c) for c in fn.sccs() if len(c) > 1 and regs & set(c)]
    if not regs or not loops:
        r10.bad('registration-loop', 'apply_globals no longer registers global metadata in a loop over the globals (shape not recognised)', loc=fn.loc(0))
        return
    comp = max(loops, key=len)
    hs = {b for b in comp if re.search(r'::next$', fn.call_name(b) or '')}
    heads = {h for h in hs if all(fn.dominates(h, o) for o in hs)}
    skipping = [c for c in fn.sccs(removed_nodes=regs) if len(c) > 1 and set(c) & heads]
    if heads and not skipping:
        r10.ok('registration-loop', loc=fn.loc(min(regs)), detail='%d registration sites, every iteration passes one' % len(regs))
    else:
        r10.bad('registration-loop', 'an iteration of the global registration loop can finish without register_global_meta: such a global has storage (and possibly an I/O binding) but restart never re-initialises it and the retain snapshot ignores it', loc=fn.loc(min(heads)) if heads else fn.loc(0))
