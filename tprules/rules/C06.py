"""C06 — task scheduling follows the IEC 61131-3 task model.

Decided statically: (R1) the ready list is ordered by the key (priority, due time, declaration
index) in that order; (R2) tasks run before background programs and scheduling precedes the
task loop; (R3) a task is queued at most once per cycle; (R4) per-task edge/period memory is
written on the right paths (edge memory on every path, period memory only when the periodic
condition fired, overruns counted by saturating add); (R5) the background set is computed
from the same data in both places that need it, and a task executes its programs then its
function blocks once each. The due-ness arithmetic itself (>=, elapsed) is not decided.
"""
import re

from ..cfg import F, op_local, place_fields
from ..gates import implied_edges, call_result_edges, guarded, test_edges
from ..prov import origins, operand_origins
from ..cg import field_reads

CRATES = ['trust_runtime']
NODEFAULT_OK = True
EXPLANATION = __doc__

RTI = '<impl trust_runtime::runtime::core::Runtime>::'
CY = 'trust_runtime::runtime::cycle::' + RTI
EXEC = CY + 'execute_cycle'
COLLECT = CY + 'collect_ready_tasks'


def run(ctx):
    fx, cg = ctx.fx, ctx.cg
    # ------------------------------------------------------------------ R1
    r1 = ctx.rule('C06.R1', 'ready list sorted by (priority, due time, declaration index), in that order', floor=1)
    ex = ctx.anchor(r1, EXEC)
    if ex is not None:
        fn = ex
        r1.saw(len(fn.g))
        sorts = fn.calls(lambda n: re.search(r'<impl \[T\]>::(sort_by_key|sort_by_cached_key|sort_by|sort_unstable_by_key|sort_unstable_by)$', n) is not None)
        if len(sorts) != 1:
            r1.bad('sort-site', 'expected one sort of the ready list in execute_cycle, found %d' % len(sorts), loc=fn.loc(0))
        else:
            sb, snm, st = sorts[0]
            clo = None
            for a in st['a']:
                for o in operand_origins(fn, a):
                    if o[0] == 'agg' and o[1].startswith('closure:'):
                        clo = o[1][8:]
            if clo is None or clo not in fx.fns:
                r1.bad('sort-key', 'the sort key closure was not found', loc=fn.loc(sb))
            else:
                cf = F(fx.fns[clo])
                r1.saw(len(cf.g))
                comps = None
                for b in cf.g:
                    for s in cf.bbs[b]['s']:
                        if s[0] == 'A' and s[1][0] == 0 and not s[1][1] and s[2][0] == 'agg' and s[2][1] == 'tuple':
                            comps = s[2][2]
                if not comps or len(comps) != 3:
                    r1.bad('sort-key', 'the sort key is not a 3-tuple (priority, due, index): %s' % (len(comps) if comps else None), loc=cf.loc(0))
                else:
                    want = [('TaskConfig.priority', None), ('ReadyTask.due_at', 'as_nanos'), ('ReadyTask.index', None)]
                    got = []
                    okk = True
                    for comp, (fld, via) in zip(comps, want):
                        oo = operand_origins(cf, comp, extra_pass=lambda n: n.endswith('Duration::as_nanos'))
                        fields = sorted(o[1].split('::')[-1] for o in oo if o[0] == 'field' and (o[1].endswith('TaskConfig.priority') or o[1].endswith('ReadyTask.due_at') or o[1].endswith('ReadyTask.index')))
                        got.append(fields)
                        if fld not in fields or len(fields) != 1:
                            okk = False
                    if okk and snm.endswith(('sort_by_key', 'sort_by_cached_key', 'sort_unstable_by_key')):
                        r1.ok('sort-key', loc=cf.loc(0), detail=got)
                    else:
                        r1.bad('sort-key', 'the ready list is not ordered by (priority, due time, declaration index): key components are %s' % got, loc=cf.loc(0))
                # the task looked up for the priority is the entry's own task (tasks[entry.index])
                idx = cf.calls(lambda n: re.search(r'Index<.*>::index$', n) is not None)
                if idx and any(o[0] == 'field' and o[1].endswith('ReadyTask.index') for o in operand_origins(cf, idx[0][2]['a'][1])):
                    r1.ok('sort-key-own-task')
                else:
                    bc = [b for b in cf.g if cf.term(b)['k'] == 'assert' and cf.term(b)['m'] == 'BoundsCheck']
                    if bc and any(o[0] == 'field' and o[1].endswith('ReadyTask.index') for o in operand_origins(cf, cf.term(bc[0])['ops'][1])):
                        r1.ok('sort-key-own-task')
                    else:
                        r1.bad('sort-key-own-task', 'the priority is not read from tasks[entry.index]', loc=cf.loc(0))

    # ------------------------------------------------------------------ R2
    r2 = ctx.rule('C06.R2', 'scheduling precedes the task loop; tasks run before background programs; the task loop runs each ready entry once', floor=3)
    if ex is not None:
        fn = ex
        r2.saw(len(fn.g))
        cb = fn.blocks_calling(lambda n: n == COLLECT)
        tb = fn.blocks_calling(lambda n: n == CY + 'execute_task')
        bb = fn.blocks_calling(lambda n: n == CY + 'execute_background_programs')
        if len(cb) == 1 and len(tb) == 1 and len(bb) == 1:
            cb, tb, bb = cb[0], tb[0], bb[0]
            pos, _, _ = call_result_edges(fn, cb)
            if pos and guarded(fn, tb, pos):
                r2.ok('collect-before-tasks', loc=fn.loc(cb))
            else:
                r2.bad('collect-before-tasks', 'execute_task is reachable without a successful collect_ready_tasks', loc=fn.loc(tb))
            if tb in fn.reach_after(bb):
                r2.bad('tasks-before-background', 'a task can execute after the background programs', loc=fn.loc(bb))
            elif bb in fn.reach_after(tb):
                r2.ok('tasks-before-background', loc=fn.loc(bb))
            else:
                r2.bad('tasks-before-background', 'background programs are not executed after the task loop', loc=fn.loc(bb))
            comp = [c for c in fn.sccs() if tb in c]
            nexts = [b for b in (comp[0] if comp else []) if (fn.call_name(b) or '').endswith('::next')]
            if comp and nexts and not any(tb in c for c in fn.sccs(removed_nodes=set(nexts))):
                r2.ok('task-once-per-entry', loc=fn.loc(tb))
            else:
                r2.bad('task-once-per-entry', 'execute_task is not executed exactly once per ready entry', loc=fn.loc(tb))
            # sort happens between collect and the loop
            sorts = fn.blocks_calling(lambda n: re.search(r'<impl \[T\]>::sort', n) is not None)
            if sorts and sorts[0] in fn.reach_after(cb) and tb in fn.reach_after(sorts[0]) and not fn.in_cycle(sorts[0]):
                r2.ok('sort-before-loop')
            else:
                r2.bad('sort-before-loop', 'the ready list is not sorted between collection and execution', loc=fn.loc(cb))
        else:
            r2.bad('shape', 'execute_cycle shape not recognised (collect/execute_task/background sites: %d/%d/%d)' % (len(cb), len(tb), len(bb)), loc=fn.loc(0))

    # ------------------------------------------------------------------ R3 / R4
    r3 = ctx.rule('C06.R3', 'a task is queued at most once per cycle', floor=1)
    r4 = ctx.rule('C06.R4', 'edge memory written on every path, period memory only when the periodic condition fired, overruns by saturating add, no replay', floor=4)
    col = ctx.anchor(r3, COLLECT)
    if col is not None:
        fn = col
        r3.saw(len(fn.g)); r4.saw(len(fn.g))
        pushes = [b for b, nm, t in fn.calls(lambda n: re.search(r'Vec::<.*>::push$', n) is not None)
                  if 'ReadyTask' in ' '.join(t['f'].get('ga') or []) or 'ReadyTask' in fn.local_ty(t['a'][0][1][0] if t['a'][0][0] in ('c', 'm') else 0)]
        sccs = fn.sccs()
        loop = None
        for c in sccs:
            if pushes and pushes[0] in c:
                loop = c
        if len(pushes) != 1 or loop is None:
            r3.bad('push-once', 'expected exactly one ready.push inside the task loop (found %d)' % len(pushes), loc=fn.loc(0))
        else:
            pb = pushes[0]
            nexts = [b for b in loop if (fn.call_name(b) or '').endswith('::next')]
            if nexts and not any(pb in c for c in fn.sccs(removed_nodes=set(nexts))):
                r3.ok('push-once', loc=fn.loc(pb))
            else:
                r3.bad('push-once', 'a task can be pushed onto the ready list more than once in one cycle', loc=fn.loc(pb))
            # the loop iterates self.tasks (enumerate)
            it = fn.calls(lambda n: n.endswith('Iterator::enumerate') or n.endswith('::enumerate'))
            if it and any(o[0] == 'field' and o[1].endswith('Runtime.tasks') for o in operand_origins(fn, it[0][2]['a'][0], extra_pass=lambda n: n.endswith('::iter') or n.endswith('Deref>::deref'))):
                r3.ok('loop-over-tasks')
            else:
                r3.bad('loop-over-tasks', 'the scheduling loop does not enumerate Runtime.tasks in declaration order', loc=fn.loc(0))
            # the pushed index is the enumerate index
            # R4: last_single on every iteration path
            ls = [b for b in loop if fn.assigns_field(b, lambda f: f.endswith('TaskState.last_single'))]
            if ls and nexts and not any(any(n in c for n in nexts) for c in fn.sccs(removed_nodes=set(ls) | {b for b in fn.g if b not in loop})):
                r4.ok('edge-memory-every-path', loc=fn.loc(ls[0]))
            else:
                r4.bad('edge-memory-every-path', 'an iteration of the scheduling loop can finish without updating TaskState.last_single: the next cycle sees a stale edge (missed or repeated event activation)', loc=fn.loc(ls[0]) if ls else fn.loc(0))
            # last_single is written from the value sampled this cycle (single_now)
            okv = False
            for b in ls:
                for st_ in fn.bbs[b]['s']:
                    if st_[0] == 'A' and place_fields(st_[1]) and place_fields(st_[1])[-1].endswith('TaskState.last_single') and st_[2][0] == 'use':
                        oo = operand_origins(fn, st_[2][1], extra_pass=lambda n: n.endswith('Deref>::deref'))
                        from_global = any(o[0] == 'call' and re.search(r'VariableStorage::get_global$', o[2]) for o in oo)
                        from_self = any(o[0] == 'field' and o[1].endswith('TaskState.last_single') for o in oo)
                        if from_global and not from_self:
                            okv = True
            if okv:
                r4.ok('edge-memory-value')
            else:
                r4.bad('edge-memory-value', 'TaskState.last_single is not written from this cycle\'s sample of the SINGLE variable', loc=fn.loc(ls[0]) if ls else fn.loc(0))
            # last_run only under periodic_due
            # the periodic condition: a comparison of (something derived from last_run) against (the interval);
            # among such boolean locals take the one whose test guards the last_run write
            pd = []
            for l_, dl_ in fn.defs.items():
                for (_b, _k, _rv) in dl_:
                    if _k == 'A' and _rv[0] == 'bin' and _rv[1] in ('Ge', 'Gt', 'Le', 'Lt') and _b in loop:
                        fa, fb_ = _dep_fields(fn, _rv[2]), _dep_fields(fn, _rv[3])
                        if any(f.endswith('TaskState.last_run') for f in fa | fb_) and any(f.endswith('.interval') for f in fa | fb_):
                            pd.append(l_)
            pd = sorted(set(pd)) or fn.local_of('periodic_due')
            lr_ = [b for b in loop if fn.assigns_field(b, lambda f: f.endswith('TaskState.last_run'))]
            # edges on which the comparison holds, closed under implication (`interval > 0 && elapsed >= interval` kept
            # in a flag, that flag combined with the SINGLE gate, ...)
            pd_pos = set()
            for cand in list(pd):
                p_, n_ = implied_edges(fn, {cand: ('bool', True)})
                if p_ and lr_ and all(guarded(fn, b, p_) for b in lr_):
                    pd = [cand]
                    pd_pos = p_
                    break
            lr = [b for b in loop if fn.assigns_field(b, lambda f: f.endswith('TaskState.last_run'))]
            if pd and lr:
                pos = pd_pos or test_edges(fn, {pd[0]: ('bool', True)})[0]
                if pos and all(guarded(fn, b, pos) for b in lr):
                    r4.ok('period-memory-only-when-due', loc=fn.loc(lr[0]))
                else:
                    r4.bad('period-memory-only-when-due', 'TaskState.last_run is updated although the periodic condition did not fire (the period drifts or activations are lost)', loc=fn.loc(lr[0]))
                # and it is set to `now` (no replay of missed activations)
                nowl = set(fn.local_of('now'))
                for l_, dl_ in fn.defs.items():
                    for (_b, _k, _rv) in dl_:
                        if _k == 'A' and _rv[0] == 'use' and _rv[1][0] in ('c', 'm') and place_fields(_rv[1][1]) and place_fields(_rv[1][1])[-1].endswith('Runtime.current_time'):
                            nowl.add(l_)
                setnow = False
                for b in lr:
                    for s in fn.bbs[b]['s']:
                        if s[0] == 'A' and place_fields(s[1]) and place_fields(s[1])[-1].endswith('TaskState.last_run') and s[2][0] == 'use':
                            l = op_local(s[2][1])
                            if l in nowl or (l is not None and any(x in nowl for x in _copy_src(fn, l))):
                                setnow = True
                if setnow:
                    r4.ok('no-replay')
                else:
                    r4.bad('no-replay', 'after a periodic activation last_run is not set to the current time: missed activations would be replayed in later cycles', loc=fn.loc(lr[0]))
            else:
                r4.bad('period-memory-only-when-due', 'periodic_due / last_run shape not recognised', loc=fn.loc(0))
            # last_run moves exactly when the periodic activation is queued: (1) behind the SINGLE gate (a task whose
            # SINGLE input is high is not scheduled periodically), (2) together with the due-time construction
            if lr:
                sseeds = {}
                for l_ in list(fn.defs):
                    if fn.local_ty(l_) != 'bool' or l_ in sseeds:
                        continue
                    oo_ = origins(fn, l_, extra_pass=lambda n: n.endswith('Deref>::deref'))
                    if any(o[0] == 'call' and re.search(r'VariableStorage::get_global$', o[2]) for o in oo_) and not any(o[0] == 'op' for o in oo_):
                        sseeds[l_] = ('bool', True)
                # SINGLE-low edges, closed under implication: the false edge of a test of SINGLE itself, and the true
                # edge of a test of any flag that can only be true when SINGLE is low (`elapsed_ok && !single`, or a
                # flag assigned under the SINGLE-low edge)
                spos, sneg = implied_edges(fn, sseeds) if sseeds else (set(), set())
                if sneg and all(guarded(fn, b_, sneg) for b_ in lr):
                    r4.ok('period-memory-behind-single-gate', loc=fn.loc(lr[0]))
                else:
                    r4.bad('period-memory-behind-single-gate', 'TaskState.last_run is updated on a path where the task\'s SINGLE input may be high: the period memory advances although no periodic activation is queued, so the activation due when SINGLE falls is lost', loc=fn.loc(lr[0]))
                dts = [b for b, nm, t in fn.calls(lambda n: re.search(r'Duration::from_nanos$', n) is not None)
                       if b in loop and any(f.endswith('TaskState.last_run') for f in _dep_fields(fn, t['a'][0]))]
                if dts and all(any(fn.dominates(d, w) for d in dts) for w in lr) and nexts and not any(n in fn.reach(list(fn.g.get(d, ())), avoid=set(lr)) for d in dts for n in nexts):
                    r4.ok('period-memory-with-activation', loc=fn.loc(lr[0]))
                else:
                    r4.bad('period-memory-with-activation', 'the last_run update and the construction of the periodic due time are no longer on the same paths: either the period memory moves without an activation being queued, or an activation is queued without the period memory moving (it would fire again next cycle)', loc=fn.loc(lr[0]))
            # the due time of a periodic activation is the first missed boundary: a function of the schedule
            # memory (last_run) and the interval only, independent of the current clock sample
            fromn = [(b, t) for b, nm, t in fn.calls(lambda n: re.search(r'Duration::from_nanos$', n) is not None) if b in loop]
            if pd and fromn:
                pos = pd_pos or test_edges(fn, {pd[0]: ('bool', True)})[0]
                per = [(b, t) for b, t in fromn if pos and guarded(fn, b, pos)]
                if len(per) != 1:
                    r4.bad('due-time-from-schedule-memory', 'expected one due-time construction under the periodic condition, found %d' % len(per), loc=fn.loc(fromn[0][0]))
                else:
                    b, t = per[0]
                    fields = _dep_fields(fn, t['a'][0])
                    has_lr = any(f.endswith('TaskState.last_run') for f in fields)
                    has_iv = any(f.endswith('.interval') for f in fields)
                    has_now = any(f.endswith('Runtime.current_time') for f in fields)
                    if has_lr and has_iv and not has_now:
                        r4.ok('due-time-from-schedule-memory', loc=fn.loc(b))
                    else:
                        r4.bad('due-time-from-schedule-memory', 'the due time of a periodic activation (the FIFO key among equal priorities) must be last_run + interval, the instant the activation first became due; here it depends on %s: after an overrun the task is ranked as if it became due later' % (
                            'the current clock sample' if has_now else 'neither last_run nor the interval' if not (has_lr or has_iv) else 'only part of (last_run, interval)'), loc=fn.loc(b))
            # overrun_count only via saturating_add
            oc_blocks = [b for b in fn.g if fn.assigns_field(b, lambda f: f.endswith('TaskState.overrun_count'))]
            sat = all((fn.call_name(b) or '').endswith('saturating_add') or any(
                s[0] == 'A' and place_fields(s[1]) and place_fields(s[1])[-1].endswith('TaskState.overrun_count') and s[2][0] == 'use' and
                any(o[0] == 'call' and o[2].endswith('saturating_add') for o in operand_origins(fn, s[2][1])) for s in fn.bbs[b]['s']) for b in oc_blocks)
            if oc_blocks and sat:
                r4.ok('overruns-saturate')
            else:
                r4.bad('overruns-saturate', 'overrun_count is not updated with a saturating add', loc=fn.loc(oc_blocks[0]) if oc_blocks else fn.loc(0))

    # ------------------------------------------------------------------ R6 configuration tables
    r6 = ctx.rule('C06.R6', 'the task table and the program tables are configuration: only the registration functions write them, never the cycle; the lowered INTERVAL is the source constant at full resolution', floor=3)
    from ..cg import field_writes
    ALLOWED = {
        'Runtime.tasks': re.compile(r'runtime::core::Runtime::register_task$|runtime::bytecode::<impl .*Runtime>::apply_resource_metadata$|runtime::core::Runtime::(new|default)$'),
        'Runtime.programs': re.compile(r'runtime::core::Runtime::register_program$|runtime::core::Runtime::(new|default)$'),
        'Runtime.function_blocks': re.compile(r'runtime::core::Runtime::register_function_block$|runtime::core::Runtime::(new|default)$'),
    }
    for fld, ok_re in sorted(ALLOWED.items()):
        writers = []
        for k in sorted(fx.fns):
            if '::tests::' in k or not k.startswith(('trust_runtime', '<trust_runtime')):
                continue
            w, mb = field_writes(fx.fns[k])
            if any(f.endswith(fld) for ch in (w | mb) for f in ch):
                writers.append(k)
        r6.saw(len(writers))
        extra = [k for k in writers if not ok_re.search(k.split('::{closure')[0])]
        if extra:
            r6.bad('table-writer|%s' % fld, '%s writes or mutably borrows %s: outside registration the table is read-only (a take / clear in the cycle that is not undone on a fault exit leaves every later cycle without its tasks: programs declared WITH a task then run as background programs every cycle)' % (
                extra[0].replace('trust_runtime::', ''), fld), loc='%s:%d' % (fx.fns[extra[0]]['file'], fx.fns[extra[0]]['line']))
        elif writers:
            r6.ok('table-writer|%s' % fld, detail='%d writers' % len(writers))
        else:
            r6.bad('table-writer|%s' % fld, 'no writer of %s found (field renamed? rule needs review)' % fld)
    ltc = [k for k in fx.fns if k.endswith('harness::compiler::config::lower_task_config')]
    if not ltc:
        r6.bad('anchor-missing|lower_task_config', 'lower_task_config not found')
    else:
        bodies = [ltc[0]] + list(fx.closures_of(ltc[0]))
        r6.saw()
        lossy = None
        for bid in bodies:
            f2 = F(fx.fns[bid])
            for b, nm, t in f2.calls(lambda n: re.search(r'value::datetime::Duration::as_(millis|secs|micros)$', n) is not None):
                lossy = (f2, b, nm)
        if lossy:
            f2, b, nm = lossy
            r6.bad('interval-full-resolution', 'lower_task_config looks at the task timing through %s, which truncates: an INTERVAL below that unit (e.g. T#500us) is lowered as 0 and the task is never scheduled periodically' % nm.split('::')[-1], loc=f2.loc(b))
        else:
            r6.ok('interval-full-resolution')

    # ------------------------------------------------------------------ R5
    r5 = ctx.rule('C06.R5', 'background set computed from the same data in both places; a task runs its programs, then its function blocks, once each', floor=3)
    a = CY + 'execute_background_programs'
    b_ = 'trust_runtime::runtime::core::Runtime::has_background_programs'
    if a in fx.fns and b_ in fx.fns:
        def src(fid):
            out = set()
            for k in [fid] + fx.closures_of(fid):
                for ch in field_reads(fx.fns[k]):
                    for f in ch:
                        if f.endswith(('Runtime.tasks', 'Runtime.programs', 'TaskConfig.programs')):
                            out.add(f.split('::')[-1])
            return out
        sa, sb_ = src(a), src(b_)
        r5.saw(len(sa) + len(sb_))
        if sa == sb_ and sa:
            r5.ok('background-set-siblings', detail=sorted(sa))
        else:
            r5.bad('background-set-siblings', 'execute_background_programs reads %s but has_background_programs reads %s: the two disagree on which programs are background' % (sorted(sa), sorted(sb_)), loc=F(fx.fns[a]).loc(0))
        fn = F(fx.fns[a])
        # scheduled programs are skipped: the push of a background program is behind the contains_key == false edge
        ck = fn.calls(lambda n: n.endswith('::contains_key'))
        ps = fn.calls(lambda n: re.search(r'Vec::<.*>::push$', n) is not None)
        if ck and ps:
            pos, neg, _ = call_result_edges(fn, ck[0][0])
            if neg and all(guarded(fn, pb, neg) for pb, _, _ in ps):
                r5.ok('background-excludes-scheduled')
            else:
                r5.bad('background-excludes-scheduled', 'a program associated with a task can also run as a background program', loc=fn.loc(ps[0][0]))
        else:
            # iterator form: `.filter(|(name, _)| !scheduled.contains_key(name))` feeding the collected background list
            okf = None
            for cid in fx.closures_of(a):
                cf = F(fx.fns[cid])
                cks = cf.calls(lambda n: n.endswith('::contains_key'))
                if not cks:
                    continue
                used = any(o[0] == 'agg' and o[1] == 'closure:' + cid for b2, nm2, t2 in fn.calls(lambda n: n.endswith('Iterator::filter')) for a2 in t2['a'] for o in operand_origins(fn, a2))
                negated = False
                for (db, dk, drv) in cf.defs.get(0, []):
                    if dk == 'A' and drv[0] == 'un' and drv[1] == 'Not' and any(o[0] == 'call' and o[2].endswith('::contains_key') for o in operand_origins(cf, drv[2])):
                        negated = True
                    elif dk == 'A':
                        negated = negated and False
                okf = used and negated and len(cf.defs.get(0, [])) == 1
            if okf:
                r5.ok('background-excludes-scheduled', detail='filter closure keeps exactly the programs not in the scheduled set')
            elif okf is None:
                r5.bad('background-excludes-scheduled', 'execute_background_programs shape not recognised', loc=fn.loc(0))
            else:
                r5.bad('background-excludes-scheduled', 'a program associated with a task can also run as a background program (the filter does not keep exactly the unscheduled programs)', loc=fn.loc(0))
    else:
        r5.bad('anchor-missing|background', 'background program functions not found')
    et = fx.fns.get(CY + 'execute_task')
    if et is not None:
        fn = F(et)
        r5.saw(len(fn.g))
        pb = fn.blocks_calling(lambda n: n == CY + 'execute_program_by_name')
        fb = fn.blocks_calling(lambda n: n == CY + 'execute_function_block_ref')
        if len(pb) == 1 and len(fb) == 1 and fb[0] in fn.reach_after(pb[0]) and pb[0] not in _reach_outside_own_loop(fn, fb[0], pb[0]):
            r5.ok('task-programs-then-fbs')
        else:
            r5.bad('task-programs-then-fbs', 'a task does not execute its programs and then its function blocks', loc=fn.loc(0))
        for what, blk in (('programs', pb), ('fbs', fb)):
            if blk:
                comp = [c for c in fn.sccs() if blk[0] in c]
                nexts = [x for x in (comp[0] if comp else []) if (fn.call_name(x) or '').endswith('::next')]
                if comp and nexts and not any(blk[0] in c for c in fn.sccs(removed_nodes=set(nexts))):
                    r5.ok('task-once|%s' % what)
                else:
                    r5.bad('task-once|%s' % what, 'a task does not execute each of its %s exactly once per activation' % what, loc=fn.loc(blk[0]))


def _dep_fields(fn, o, limit=600):
    """all struct fields the value of operand o data-depends on (through every call argument and operator)"""
    fields, seen, st = set(), set(), []

    def push(op):
        if op[0] in ('c', 'm'):
            st.append(op[1][0])
            for f in place_fields(op[1]):
                fields.add(f)
    push(o)
    while st and len(seen) < limit:
        l = st.pop()
        if l in seen:
            continue
        seen.add(l)
        for (b, k, payload) in fn.defs.get(l, []):
            if k == 'A':
                rv = payload
                if rv[0] == 'use':
                    push(rv[1])
                elif rv[0] in ('cast', 'un'):
                    push(rv[2])
                elif rv[0] == 'bin':
                    push(rv[2]); push(rv[3])
                elif rv[0] == 'ref':
                    push(['c', rv[2]])
                elif rv[0] == 'agg':
                    for x in rv[2]:
                        push(x)
            elif k == 'C':
                for a in payload['a']:
                    push(a)
    return fields


def _copy_src(fn, l, depth=0):
    out = set()
    if depth > 4:
        return out
    for (b, k, rv) in fn.defs.get(l, []):
        if k == 'A' and rv[0] == 'use' and rv[1][0] in ('c', 'm') and not rv[1][1][1]:
            out.add(rv[1][1][0])
            out |= _copy_src(fn, rv[1][1][0], depth + 1)
    return out


def _reach_outside_own_loop(fn, start, target):
    """blocks reachable after `start`"""
    return fn.reach_after(start)
