"""C11 — STBC container: total decoder/validator, validated means safe to apply.

Decided statically: (R1) counts/sizes read from the container never size an allocation
unsanitised; (R2) container-derived values never enter unchecked arithmetic that can
overflow (width argument, with argument widths taken over all call sites); (R3) every
recursion cycle of decoder/validator/metadata carries a depth bound; (R6) the apply path is
decode -> validate -> metadata -> apply on success edges, and the encoder validates what it
builds; (R7) container-derived indexes never reach a panicking index; (R8) the reader
primitive bounds-checks before slicing and every other read goes through it.
Byte-exact round trip and semantic safety of validated containers are not decided.
"""
import re

from ..cfg import F, op_local, place_fields
from ..gates import call_result_edges, guarded, unguarded_path, compare_seeds, test_edges
from ..prov import origins, operand_origins
from ..taint import tainted_sinks, tainted_locals
from ..recursion import check_cycles
from .. import arith

CRATES = ['trust_runtime']
NODEFAULT_OK = True
EXPLANATION = __doc__

B = 'trust_runtime::bytecode::'
RB = 'trust_runtime::runtime::bytecode::<impl trust_runtime::runtime::core::Runtime>::'
DECODE_SIDE = (B + 'decode::', B + 'validate::', B + 'metadata::', B + 'reader::', B + 'util::', 'trust_runtime::runtime::bytecode::')
SRC = lambda n: re.search(r'bytecode::reader::BytecodeReader.*::read_(u32|u64|i32|i64)$', n) is not None
SRC_ANY = lambda n: re.search(r'bytecode::reader::BytecodeReader.*::read_(u8|u16|u32|u64|i32|i64)$', n) is not None
FLD = lambda f: f.startswith(B) and not f.startswith(B + 'encoder') and not f.startswith(B + 'reader::BytecodeReader')

R1_KNOWN = {}
R2_REVIEWED = {
    ('reader::BytecodeReader::<\'a>::read_bytes', 'Add'): 'cursor <= data.len() <= isize::MAX (63 bits) and len is at most 62 bits wide at every decode-side call site (premise re-measured each run), so cursor + len fits usize on 64-bit targets',
}


R7_REVIEWED = {
    ('decode::<impl trust_runtime::bytecode::format::BytecodeModule>::decode', 'Index::index'):
        ('decode::validate_section_entries', 'every section entry (offset, length) was checked against bytes.len() by validate_section_entries on the dominating Ok edge'),
}


def _guarded_by_ok_of(fn, b, callee_suffix):
    for cb, nm, t in fn.calls(lambda n: n.endswith(callee_suffix)):
        pos, neg, _ = call_result_edges(fn, cb)
        if pos and guarded(fn, b, pos):
            return True
    return False


def _range_guarded(fn, b, idx_op):
    """the Range/RangeFrom/RangeTo used as index has its upper (or only) bound compared against a length, with the index behind the within-bounds edge"""
    if idx_op[0] not in ('c', 'm'):
        return False
    base = idx_op[1][0]
    comps = []
    for (db, dk, rv) in fn.defs.get(base, []):
        if dk == 'A' and rv[0] == 'agg' and 'Range' in rv[1]:
            comps = rv[2]
    if not comps:
        return False
    bound = comps[-1]
    bl = bound[1][0] if bound[0] in ('c', 'm') else None
    if bl is None:
        return False
    bound_slice = _backward_locals(fn, bl)

    def pred(op, a, c, bb):
        if op not in ('Gt', 'Ge', 'Lt', 'Le'):
            return None
        is_len = lambda o: any((x[0] == 'call' and x[2].endswith('::len')) or (x[0] == 'op' and x[1] == 'PtrMetadata') for x in operand_origins(fn, o))
        la = a[1][0] if a[0] in ('c', 'm') else None
        lc = c[1][0] if c[0] in ('c', 'm') else None
        # the compared value is the bound itself (same root through copies) or was computed from it by additions (value >= bound)
        rb_ = _root(fn, bl)
        if is_len(c) and la is not None and (_root(fn, la) == rb_ or rb_ in {_root(fn, x) for x in _backward_locals(fn, la)}):
            return op in ('Lt', 'Le')
        if is_len(a) and lc is not None and (_root(fn, lc) == rb_ or rb_ in {_root(fn, x) for x in _backward_locals(fn, lc)}):
            return op in ('Gt', 'Ge')
        return None
    seeds = compare_seeds(fn, pred)
    if not seeds:
        return False
    pos, neg, _ = test_edges(fn, seeds)
    if not (pos and guarded(fn, b, pos)):
        return False
    # a two-sided range with a container-derived start also needs start <= end on the dominating path
    if len(comps) == 2 and comps[0][0] in ('c', 'm') and arith.const_int(fn, comps[0]) is None and _cast_derived(fn, comps[0][1][0]):
        sl = _root(fn, comps[0][1][0])
        el = _root(fn, bl)
        if sl == el:
            return True
        # end computed from start by additions (end >= start by construction)
        if sl in {_root(fn, x) for x in _backward_locals(fn, bl)}:
            return True

        def pred2(op, a, c, bb):
            if op not in ('Gt', 'Ge', 'Lt', 'Le'):
                return None
            la = _root(fn, a[1][0]) if a[0] in ('c', 'm') else None
            lc = _root(fn, c[1][0]) if c[0] in ('c', 'm') else None
            if la == sl and lc == el:
                return op in ('Lt', 'Le')       # start <= end holds on the true edge
            if la == el and lc == sl:
                return op in ('Gt', 'Ge')
            return None
        seeds2 = compare_seeds(fn, pred2)
        if not seeds2:
            return False
        pos2, neg2, _ = test_edges(fn, seeds2)
        return bool(pos2) and guarded(fn, b, pos2)
    return True


def _cast_derived(fn, l):
    """the value was obtained by casting a narrower/wider stored integer (u8..u64, i32, i64) to the index type:
    container integers are stored as fixed-width fields and cast to usize for indexing, loop counters and lengths are not"""
    for x in _backward_locals(fn, l):
        for (db, dk, rv) in fn.defs.get(x, []):
            if dk == 'A' and rv[0] == 'cast':
                st = arith.op_type(fn, rv[2])
                if st in ('u8', 'u16', 'u32', 'u64', 'i32', 'i64', 'i16'):
                    return True
    return False


def _root(fn, l, depth=0):
    """follow single-definition plain copies to the local that holds the value first"""
    dl = fn.defs.get(l, [])
    if depth < 8 and len(dl) == 1 and dl[0][1] == 'A' and dl[0][2][0] == 'use' and dl[0][2][1][0] in ('c', 'm') and not dl[0][2][1][1][1]:
        return _root(fn, dl[0][2][1][1][0], depth + 1)
    return l


def _backward_locals(fn, l, depth=0, seen=None):
    """locals in the backward slice of l through copies, casts, checked/plain additions and Try payloads"""
    if seen is None:
        seen = set()
    if l in seen or depth > 12:
        return seen
    seen.add(l)
    for (db, dk, pl) in fn.defs.get(l, []):
        ops = []
        if dk == 'A':
            rv = pl
            if rv[0] == 'use':
                ops = [rv[1]]
            elif rv[0] == 'cast':
                ops = [rv[2]]
            elif rv[0] == 'bin' and rv[1] in ('Add', 'AddWithOverflow'):
                ops = [rv[2], rv[3]]
            elif rv[0] == 'agg' and 'ops::range::Range' in rv[1]:
                ops = list(rv[2])
        elif dk == 'C':
            nm = fn.call_name(db) or ''
            if re.search(r'::(checked_add|saturating_add)$|Try>::branch$|(Option|Result)::<.*>::(ok_or|ok_or_else|unwrap|expect|map_err)$', nm):
                ops = pl['a'][:2] if 'add' in nm else pl['a'][:1]
        for o in ops:
            if o[0] in ('c', 'm'):
                _backward_locals(fn, o[1][0], depth + 1, seen)
    return seen


def _decode_side(k):
    return k.startswith(DECODE_SIDE)


def param_bits(ctx, fid, param, depth=0):
    """max magnitude bits of the argument passed for `param` (1-based) over all direct call sites"""
    fx, cg = ctx.fx, ctx.cg
    rec = fx.fns[fid]
    own = arith.INT_BITS.get(F(rec).local_ty(param), 999)
    sites = [(a, bb) for a, bb, _ in cg.callers(fid) if _decode_side(a)]
    if not sites or depth > 2:
        return own
    worst = 0
    for a, bb in sites:
        if a not in fx.fns:
            return own
        cf = F(fx.fns[a])
        t = cf.term(bb)
        if t['k'] != 'call' or param - 1 >= len(t['a']):
            return own
        worst = max(worst, arith.bits(cf, t['a'][param - 1]))
    return min(own, worst)


def run(ctx):
    _run_main(ctx)
    rule_r10(ctx)


def _run_main(ctx):
    fx, cg = ctx.fx, ctx.cg
    arith.FX = fx

    # ------------------------------------------------------------------ R1
    r1 = ctx.rule('C11.R1', 'counts/sizes read from the container never size an allocation unsanitised', floor=25, floor_what='allocation sinks on the decode/apply side')
    for k in sorted(fx.fns):
        if not _decode_side(k):
            continue
        fn = F(fx.fns[k])
        for b, nm, tainted in tainted_sinks(fn, SRC, FLD):
            r1.saw()
            short = k.split('::', 2)[-1]
            key = '%s|%s' % (short, nm.split('::')[-1])
            if tainted:
                r1.bad(key, 'allocation sized by a value taken from the container (a small container requests gigabytes: abort instead of an error)', loc=fn.loc(b))
            else:
                r1.ok(key, loc=fn.loc(b), detail='sanitised (min/clamp) or bounded (u16) or not container-derived')

    # ------------------------------------------------------------------ R2
    r2 = ctx.rule('C11.R2', 'container-derived values never enter arithmetic that can overflow', floor=8, floor_what='arithmetic sites with a container-derived operand')
    for k in sorted(fx.fns):
        if not _decode_side(k):
            continue
        fn = F(fx.fns[k])
        sites = arith.sites(fn)
        if not sites:
            continue
        t = tainted_locals(fn, SRC_ANY, FLD)
        argc = fn.r['argc']
        for (b, kind, op, ops) in sites:
            cont = False
            for o in ops:
                if o[0] in ('c', 'm') and (o[1][0] in t or any(isinstance(p, list) and p[0] == 'f' and FLD(p[1]) for p in o[1][1])):
                    cont = True
                # integer parameters of decode-side helpers carry container data from their callers
                if o[0] in ('c', 'm') and not o[1][1]:
                    for org in origins(fn, o[1][0]):
                        if org[0] == 'arg' and fn.local_ty(org[1]) in arith.INT_BITS:
                            cont = True
            # container data also travels through collections (e.g. the (pc, offset) jump list), which local taint
            # does not follow: fixed-width non-usize arithmetic on the decode side is always in scope
            tys = [arith.op_type(fn, o) for o in ops]
            if any(t_ in ('i32', 'i64', 'u32', 'u64', 'i16', 'u16', 'i8') for t_ in tys if t_):
                cont = True
            if not cont:
                continue
            r2.saw()
            short = k.split('::', 2)[-1]
            ty = None
            for o in ops:
                ty = arith.op_type(fn, o) or ty
            key = '%s|%s|%s|%s' % (short, kind, op, ty)
            why = None
            if kind == 'Overflow' and arith.width_discharged(fn, kind, op, ops):
                why = 'width'
            elif kind in ('DivisionByZero', 'RemainderByZero') and arith.zero_test_discharged(fn, b, ops):
                why = 'zero-test'
            elif kind == 'Overflow' and arith.guard_discharged(fn, b, op, ops):
                why = 'guard'
            elif kind == 'Overflow' and op in ('Add', 'Mul'):
                # interprocedural widths: parameters take the widest argument of any call site
                bs = []
                for o in ops:
                    bv = arith.bits(fn, o)
                    lo = op_local(o)
                    if lo is not None:
                        for org in origins(fn, lo):
                            if org[0] == 'arg':
                                bv = min(bv, param_bits(ctx, k, org[1])) if bv >= 64 else bv
                    bs.append(bv)
                cap = arith.INT_BITS.get(ty, 0)
                tot = (max(bs) + 1) if op == 'Add' else sum(bs)
                if cap and tot <= cap:
                    why = 'width (argument widths over all call sites: %s bits)' % bs
            if why:
                r2.ok(key, loc=fn.loc(b), detail=why)
                continue
            rk = (short, op)
            if rk in R2_REVIEWED:
                # premise: len <= 32 bits at every call site
                pb = param_bits(ctx, k, 2) if argc >= 2 else 999
                if pb <= 62:
                    r2.excepted(key, R2_REVIEWED[rk] + ' [measured: len argument <= %d bits]' % pb, loc=fn.loc(b))
                    continue
                r2.bad(key, 'reader arithmetic: a call site passes a length wider than 62 bits (%d), so cursor + len can wrap' % pb, loc=fn.loc(b))
                continue
            r2.bad(key, 'unchecked `%s` on %s with a container-derived operand: a crafted container panics the decoder/validator (or wraps in release builds)' % (op, ty), loc=fn.loc(b))

    # ------------------------------------------------------------------ R3
    r3 = ctx.rule('C11.R3', 'every recursion cycle of decoder/validator/metadata carries a depth bound', floor=1, floor_what='recursion cycles')
    check_cycles(ctx, r3, lambda k: _decode_side(k), 'cycle')

    # ------------------------------------------------------------------ R6
    r6 = ctx.rule('C11.R6', 'apply path: decode Ok -> validate Ok -> metadata Ok -> apply; the encoder validates the module it builds', floor=5)
    ab = ctx.anchor(r6, RB + 'apply_bytecode_bytes')
    am = ctx.anchor(r6, RB + 'apply_bytecode_module')
    if ab is not None:
        fn = ab
        r6.saw(len(fn.g))
        dec = fn.calls(lambda n: n.endswith('BytecodeModule>::decode') or n.endswith('::decode'))
        app = fn.calls(lambda n: n == RB + 'apply_bytecode_module')
        if dec and app:
            pos, neg, _ = call_result_edges(fn, dec[0][0])
            if pos and guarded(fn, app[0][0], pos):
                r6.ok('decode-before-apply', loc=fn.loc(dec[0][0]))
            else:
                r6.bad('decode-before-apply', 'apply_bytecode_module is reachable without a successful decode', loc=fn.loc(app[0][0]))
        else:
            r6.bad('decode-before-apply', 'apply_bytecode_bytes shape not recognised (decode / apply_bytecode_module calls)', loc=fn.loc(0))
    if am is not None:
        fn = am
        r6.saw(len(fn.g))
        val = fn.calls(lambda n: n.endswith('::validate'))
        met = fn.calls(lambda n: n.endswith('::metadata'))
        app = fn.calls(lambda n: n == RB + 'apply_bytecode_metadata')
        if val and met and app:
            pv, _, _ = call_result_edges(fn, val[0][0])
            pm, _, _ = call_result_edges(fn, met[0][0])
            if pv and guarded(fn, met[0][0], pv):
                r6.ok('validate-before-metadata', loc=fn.loc(val[0][0]))
            else:
                r6.bad('validate-before-metadata', 'metadata() is reachable without a successful validate()', loc=fn.loc(met[0][0]))
            if pv and pm and guarded(fn, app[0][0], pv) and guarded(fn, app[0][0], pm):
                r6.ok('validate-before-apply', loc=fn.loc(app[0][0]))
            else:
                r6.bad('validate-before-apply', 'the runtime is reconfigured from a container that did not validate', loc=fn.loc(app[0][0]),
                       witness={'path_lines': fn.path_lines(unguarded_path(fn, app[0][0], pv))})
            # validate is called on the module that is applied
            vo = operand_origins(fn, val[0][2]['a'][0])
            mo = operand_origins(fn, met[0][2]['a'][0])
            if {o for o in vo if o[0] == 'arg'} == {o for o in mo if o[0] == 'arg'} != set():
                r6.ok('same-module')
            else:
                r6.bad('same-module', 'validate() and metadata() are not applied to the same module value', loc=fn.loc(val[0][0]))
        else:
            r6.bad('validate-before-apply', 'apply_bytecode_module shape not recognised (validate / metadata / apply_bytecode_metadata)', loc=fn.loc(0))
    # who may call apply_resource_metadata / apply_bytecode_metadata: only the chain (and the harness/bin with already-validated metadata)
    for tgt in (RB + 'apply_resource_metadata',):
        cs = sorted({a for a, _, _ in cg.callers(tgt)})
        bad = [c for c in cs if c not in (RB + 'apply_bytecode_metadata',)]
        r6.saw(len(cs))
        if bad:
            r6.bad('who-calls|apply_resource_metadata', 'apply_resource_metadata is called outside apply_bytecode_metadata: %s' % bad)
        else:
            r6.ok('who-calls|apply_resource_metadata')
    # encoder build validates
    enc_build = [k for k in fx.fns if re.search(r'bytecode::encoder::.*BytecodeEncoder.*::build$', k)]
    if not enc_build:
        r6.note('encoder build function not found by name (skipped)')
    else:
        fn = F(fx.fns[enc_build[0]])
        r6.saw(len(fn.g))
        val = fn.calls(lambda n: n.endswith('::validate'))
        oks = [b for b in fn.g for s in fn.bbs[b]['s'] if s[0] == 'A' and s[1][0] == 0 and s[2][0] == 'agg' and s[2][1].endswith('Result::Ok')]
        if val:
            pv, _, _ = call_result_edges(fn, val[0][0])
            if oks and pv and all(guarded(fn, b, pv) for b in oks):
                r6.ok('encoder-validates', loc=fn.loc(val[0][0]))
            else:
                r6.bad('encoder-validates', 'the encoder can return a module it did not validate', loc=fn.loc(0))
        else:
            r6.bad('encoder-validates', 'the encoder no longer validates the module it builds', loc=fn.loc(0))

    rule_r9(ctx)

    # ------------------------------------------------------------------ R7
    r7 = ctx.rule('C11.R7', 'container-derived indexes never reach a panicking index operation (use .get)', floor=20, floor_what='index sites on the decode side')
    for k in sorted(fx.fns):
        if not _decode_side(k):
            continue
        fn = F(fx.fns[k])
        t = None
        short = k.split('::', 2)[-1]
        for b in fn.g:
            tm = fn.term(b)
            idx_op = None
            kind = None
            if tm['k'] == 'assert' and tm['m'] == 'BoundsCheck':
                idx_op, kind = tm['ops'][1], 'bounds-check'
            elif tm['k'] == 'call' and re.search(r'Index<.*>::index$|IndexMut<.*>::index_mut$', fn.call_name(b) or ''):
                idx_op, kind = tm['a'][1], 'Index::index'
            if idx_op is None:
                continue
            r7.saw()
            if arith.const_int(fn, idx_op) is not None:
                r7.ok('%s|%s|const' % (short, kind), loc=fn.loc(b))
                continue
            if t is None:
                t = tainted_locals(fn, SRC_ANY, FLD)
            tainted = idx_op[0] in ('c', 'm') and (idx_op[1][0] in t or _cast_derived(fn, idx_op[1][0]))
            if tainted and _range_guarded(fn, b, idx_op):
                r7.ok('%s|%s' % (short, kind), loc=fn.loc(b), detail='range bound compared against the slice length on the dominating path')
            elif tainted and (short.split('|')[0], kind) in R7_REVIEWED and _guarded_by_ok_of(fn, b, R7_REVIEWED[(short, kind)][0]):
                r7.excepted('%s|%s' % (short, kind), R7_REVIEWED[(short, kind)][1], loc=fn.loc(b))
            elif tainted:
                r7.bad('%s|%s' % (short, kind), 'a container-derived value indexes a slice with a panicking operation and no dominating length / start <= end check', loc=fn.loc(b))
            else:
                r7.ok('%s|%s' % (short, kind), loc=fn.loc(b), detail='index not container-derived (loop counter / position)')

    # premise of the reviewed exception above: validate_section_entries bounds-checks *every* entry it is given:
    # each iteration of its loop passes the comparison of the entry's end against the file length, and the
    # out-of-bounds edge returns an error
    from ..dep import deps as _deps
    vse = fx.fns.get(BC + 'decode::validate_section_entries') if 'BC' in globals() else None
    if vse is None:
        cands = [k for k in fx.fns if k.endswith('bytecode::decode::validate_section_entries')]
        vse = fx.fns.get(cands[0]) if cands else None
    if vse is None:
        r7.bad('anchor-missing|validate_section_entries', 'validate_section_entries not found (premise of the section-slice exception)')
    else:
        vf = F(vse)
        r7.saw()
        cmps = set()
        for b in vf.g:
            for st in vf.bbs[b]['s']:
                if st[0] == 'A' and st[2][0] == 'bin' and st[2][1] in ('Gt', 'Ge', 'Lt', 'Le'):
                    da, db_ = _deps(vf, st[2][2]), _deps(vf, st[2][3])
                    # one side: the file length parameter; other side: depends on an entry's offset/length
                    flen = (1 in da.args) != (1 in db_.args)
                    ent = any(f.endswith('SectionEntry.length') for f in da.fields | db_.fields) and any(f.endswith('SectionEntry.offset') for f in da.fields | db_.fields)
                    if flen and ent:
                        cmps.add(b)
        loops = [set(c) for c in vf.sccs() if len(c) > 1]
        hs = {b for c in loops for b in c if re.search(r'::next$', vf.call_name(b) or '')}
        skipping = [c for c in vf.sccs(removed_nodes=cmps) if len(c) > 1 and set(c) & hs]
        if cmps and hs and not skipping:
            r7.ok('validate_section_entries|every-entry-bounds-checked', loc=vf.loc(min(cmps)))
        else:
            r7.bad('validate_section_entries|every-entry-bounds-checked', 'validate_section_entries can accept a section entry without comparing offset + length against the file length (an iteration skips the check): decode() then slices bytes[start..end] with container-chosen bounds and panics', loc=vf.loc(min(hs)) if hs else vf.loc(0))

    # ------------------------------------------------------------------ R8
    r8 = ctx.rule('C11.R8', 'the reader primitive bounds-checks before slicing; every other read goes through it', floor=7)
    rbid = [k for k in fx.fns if re.search(r'bytecode::reader::BytecodeReader.*::read_bytes$', k)]
    if not rbid:
        r8.bad('anchor-missing|read_bytes', 'BytecodeReader::read_bytes not found')
    else:
        fn = F(fx.fns[rbid[0]])
        r8.saw(len(fn.g))

        def pred(op, a, c, bb):
            if op not in ('Gt', 'Ge', 'Lt', 'Le'):
                return None
            oa = operand_origins(fn, a)
            oc = operand_origins(fn, c)
            is_len = lambda os: any((o[0] == 'call' and o[2].endswith('::len')) or (o[0] == 'op' and o[1] == 'PtrMetadata') for o in os)
            if is_len(oc):
                return op in ('Lt', 'Le')
            if is_len(oa):
                return op in ('Gt', 'Ge')
            return None
        seeds = compare_seeds(fn, pred)
        pos, neg, _ = test_edges(fn, seeds) if seeds else (set(), set(), [])
        idx = fn.calls(lambda n: re.search(r'Index<.*>::index$|::get_unchecked$', n) is not None)
        if pos and idx and all(guarded(fn, b, pos) for b, _, _ in idx):
            r8.ok('read_bytes-guard', loc=fn.loc(idx[0][0]))
        else:
            r8.bad('read_bytes-guard', 'the slice in read_bytes is reachable without passing the cursor + len <= data.len() check', loc=fn.loc(idx[0][0]) if idx else fn.loc(0))
        # cursor advances exactly by len on the success path
        adv = [b for b in fn.g if fn.assigns_field(b, lambda f: f.endswith('BytecodeReader.cursor'))]
        if adv and pos and all(guarded(fn, b, pos) for b in adv):
            r8.ok('cursor-advance', loc=fn.loc(adv[0]))
        else:
            r8.bad('cursor-advance', 'the cursor is advanced outside the bounds-checked path (or not at all: reads would not make progress)', loc=fn.loc(0))
    for k in sorted(fx.fns):
        if not re.search(r'bytecode::reader::BytecodeReader.*::read_(u8|u16|u32|u64|i32|i64)$', k):
            continue
        fn = F(fx.fns[k])
        r8.saw(len(fn.g))
        rbs = fn.calls(lambda n: n.endswith('::read_bytes'))
        direct = [b for b in fn.g for s in fn.bbs[b]['s'] if s[0] == 'A' and place_fields(s[1]) and place_fields(s[1])[-1].endswith('BytecodeReader.cursor')]
        n_const = arith.const_int(fn, rbs[0][2]['a'][1]) if rbs else None
        worst = -1
        okc = True
        for b in fn.g:
            tm = fn.term(b)
            if tm['k'] == 'assert' and tm['m'] == 'BoundsCheck':
                v = arith.const_int(fn, tm['ops'][1])
                if v is None:
                    okc = False
                else:
                    worst = max(worst, v)
        name = k.split('::')[-1]
        width = {'read_u8': 1, 'read_u16': 2, 'read_u32': 4, 'read_i32': 4, 'read_u64': 8, 'read_i64': 8}[name]
        if rbs and not direct and okc and n_const == width and worst < n_const:
            r8.ok('through-read_bytes|%s' % name)
        else:
            r8.bad('through-read_bytes|%s' % name, '%s does not read exactly %d bytes through read_bytes (reads %s, indexes up to %s)' % (name, width, n_const, worst), loc=fn.loc(0))


# ------------------------------------------------------------------ R9 (encoder side)
def _truncates(fn, elem):
    out = []
    for b, nm, t in fn.calls(lambda n: re.search(r'Vec::<.*>::truncate$', n) is not None):
        ga = t['f'].get('ga') or ['']
        if elem in ga[0]:
            out.append(b)
    return out


def rule_r9(ctx):
    """every container the compiler emits validates (necessary condition): when the code generator rolls back the code
    buffer after nested statements were emitted, it rolls back their debug-map entries too"""
    fx, cg = ctx.fx, ctx.cg
    r9 = ctx.rule('C11.R9', 'encoder rollback: a code-buffer truncate that follows nested statement emission is paired with a debug-entry truncate on every path', floor=10, floor_what='rollback sites after nested emission')
    pushers = set()
    for k, rec in fx.fns.items():
        if not k.startswith(B + 'encoder::'):
            continue
        fn = F(rec)
        for b, nm, t in fn.calls(lambda n: re.search(r'Vec::<.*>::push$', n) is not None):
            ga = t['f'].get('ga') or ['']
            if 'DebugEntry' in ga[0]:
                pushers.add(k)
    if not pushers:
        r9.bad('anchor-missing|debug-entry-push', 'no function pushing DebugEntry found in the encoder')
        return
    can_push = {k for k in fx.fns if k.startswith(B + 'encoder::') and (k in pushers or cg.reach([k]) & pushers)}
    for k in sorted(fx.fns):
        if not k.startswith(B + 'encoder::codegen::'):
            continue
        fn = F(fx.fns[k])
        code_tr = _truncates(fn, 'u8')
        if not code_tr:
            continue
        dbg_tr = set(_truncates(fn, 'DebugEntry'))
        emitters = set(fn.blocks_calling(lambda n: n in can_push))
        short = k.split('::')[-1]
        for b in code_tr:
            # was anything that can push debug entries executed on some path to this rollback?
            before = any(b in fn.reach_after(e) for e in emitters)
            if not before:
                continue
            r9.saw()
            ok, path = fn.must_pass_from([b], dbg_tr) if b not in dbg_tr else (True, None)
            if dbg_tr and ok:
                r9.ok('rollback|%s' % short, loc=fn.loc(b))
            else:
                r9.bad('rollback|%s' % short, 'the code buffer is rolled back after nested statements were emitted but their debug-map entries are kept: they point past the end of the code and the emitted container fails validation (or carries a wrong debug map)',
                       loc=fn.loc(b), witness={'path_lines': fn.path_lines(path)[-8:] if path else None})


def rule_r10(ctx):
    """Derived tables are computed after the last mutation of their source: in BytecodeEncoder::build the type offset
    table is computed from `self.types` only when nothing that can still register a type runs afterwards."""
    from ..cg import field_writes
    fx, cg = ctx.fx, ctx.cg
    r10 = ctx.rule('C11.R10', 'the compiled module is self-consistent: the type-offset table is computed after the last step that can register a type', floor=1)
    bid = [k for k in fx.fns if re.search(r'bytecode::encoder::(<impl .*)?BytecodeEncoder(::<.*>|<.*>>)::build$', k)]
    if not bid:
        r10.bad('anchor-missing|build', 'BytecodeEncoder::build not found')
        return
    fn = F(fx.fns[bid[0]])
    r10.saw(len(fn.g))
    comp = fn.blocks_calling(lambda n: n.endswith('compute_type_offsets_for_entries'))
    if not comp:
        r10.bad('type-offsets-last', 'build() no longer computes the type offsets with compute_type_offsets_for_entries (shape not recognised)', loc=fn.loc(0))
        return
    is_types = lambda f: f.endswith('BytecodeEncoder.types')
    memo = {}

    def mutates_types(fid):
        if fid in memo:
            return memo[fid]
        memo[fid] = False
        out = False
        for n in cg.reach([fid]):
            rec = fx.fns.get(n)
            if rec is None:
                continue
            w, mb = field_writes(rec)
            if any(is_types(f) for ch in (w | mb) for f in ch):
                out = True
                break
        memo[fid] = out
        return out
    late = []
    after = set()
    for c in comp:
        after |= fn.reach_after(c)
    for b, nm, t in fn.calls(lambda n: n in fx.fns):
        if b in after and b not in comp and mutates_types(nm):
            late.append((b, nm))
    if late:
        r10.bad('type-offsets-last', 'build() computes the type-offset table before %s, which can still register a type: the compiled module then carries an offset table that does not match its type entries (decode(encode(m)) differs from m)' % late[0][1].split('::')[-1], loc=fn.loc(late[0][0]))
    else:
        r10.ok('type-offsets-last', loc=fn.loc(comp[0]))
