"""C01 — every scan cycle ends in success or a value-dependent fault, never a crash.

Decided statically: (R1) every call-frame push is popped on every exit of the function that
pushed it, and a taken debug hook is restored; (R2) no unchecked fixed-width arithmetic on
program values in the evaluator core (overflow/neg/div-by-zero assert sites are discharged by
width, saturation guard, zero test or bookkeeping, or are reviewed exceptions); (R3) explicit
panic sites reachable from the cycle are a reviewed table; (R4) every interpreter loop
re-checks the execution budget and FOR rejects a zero step; (R5) types the checker accepts
for a construct are supported by the interpreter; (R6) a runtime is built only from sources
with no parse errors and no error diagnostics.
"""
import re

from ..cfg import F, op_local, place_fields
from ..gates import call_result_edges, guarded, unguarded_path, test_edges, compare_seeds
from ..pairing import explore, call_event, last_fallible_call
from ..prov import origins, operand_origins
from .. import arith

CRATES = ['trust_runtime', 'trust_hir']
NODEFAULT_OK = True
NODEFAULT_SKIP = ['C01.R5', 'C01.R7', 'C01.R9']      # the checker-side table lives in trust_hir, which the second configuration does not load
EXPLANATION = __doc__

RT = 'trust_runtime::'
PUSH = re.compile(r'^trust_runtime::memory::VariableStorage::push_frame(_with_instance)?$')
POP = re.compile(r'^trust_runtime::memory::VariableStorage::pop_frame$')
EXEC_CYCLE = 'trust_runtime::runtime::cycle::<impl trust_runtime::runtime::core::Runtime>::execute_cycle'
RESTART = 'trust_runtime::runtime::restart::<impl trust_runtime::runtime::core::Runtime>::restart'

# ---- R1 exceptions: (function suffix, failing callee) on the should_execute == false path
R1_EXCEPT = {
    ('eval::call_function', 'trust_runtime::eval::collect_outputs'),
    ('eval::call_method', 'trust_runtime::eval::collect_outputs'),
    ('eval::call_function_block', 'trust_runtime::eval::collect_outputs'),
}
R1_EXCEPT_REASON = ('on the should_execute == false path out_targets holds only OutputBinding::Value entries or parameters just '
                    'bound in the callee frame, so collect_outputs performs no fallible read there')

# ---- R2 scope and reviewed exceptions
R2_SCOPE = ('trust_runtime::eval::', 'trust_runtime::numeric::', 'trust_runtime::stdlib::fbs', 'trust_runtime::runtime::cycle::',
            'trust_runtime::runtime::core::<impl trust_runtime::runtime::core::Runtime>::advance_time')
R2_SCOPE_THOROUGH = R2_SCOPE + ('trust_runtime::stdlib::', 'trust_runtime::value::', 'trust_runtime::datetime', 'trust_runtime::memory::',
                                'trust_runtime::io::IoInterface', 'trust_runtime::instance::', 'trust_runtime::task::')
R2_REVIEWED = {
    # key (function suffix, op, type) -> reason
    ('eval::expr::access::array_offset', 'Sub', 'i64'): 'operands are declared array dimensions (lower <= upper validated when the type is built) and an index already range-checked against them two statements earlier',
    ('eval::expr::access::array_offset', 'Add', 'i64'): 'upper - lower + 1 over declared dimensions',
    ('eval::expr::access::array_offset', 'Mul', 'i128'): 'stride/offset products over declared dimensions of an array that was allocated (element count fits usize)',
    ('eval::expr::access::array_offset', 'Add', 'i128'): 'offset accumulation over declared dimensions of an allocated array',
    ('stdlib::fbs::timers::Ton::step', 'Add', 'i64'): 'C04.R4: et accumulates deltas of the one runtime clock since __last_time, so et + delta <= now <= i64::MAX',
    ('stdlib::fbs::timers::Tof::step', 'Add', 'i64'): 'C04.R4: as Ton',
    ('stdlib::fbs::timers::Tp::step', 'Add', 'i64'): 'C04.R4: as Ton',
    ('stdlib::fbs::timers::elapsed_since', 'Sub', 'i64'): 'C04.R4: now - last with last written only from ctx.now of an earlier call (monotone non-negative clock)',
    ('runtime::cycle::<impl trust_runtime::runtime::core::Runtime>::collect_ready_tasks', 'Div', 'i64'): 'elapsed / interval_nanos inside `if periodic_due`, whose conjunction includes interval_nanos > 0; operands are clock values, not program values',
    ('runtime::cycle::<impl trust_runtime::runtime::core::Runtime>::collect_ready_tasks', 'Sub', 'i64'): 'intervals - 1 under `intervals > 1`',
    ('eval::ops::duration_to_ticks', 'Div', 'i128'): 'divisor is i128::from(resolution) with resolution == 0 rejected two statements earlier (test is on the un-widened value)',
}

# how many sites each reviewed key covered when it was reviewed: a further site with the same key was not looked at
R2_REVIEWED_COUNT = {
    ('eval::expr::access::array_offset', 'Add', 'i128'): 1, ('eval::expr::access::array_offset', 'Add', 'i64'): 1,
    ('eval::expr::access::array_offset', 'Mul', 'i128'): 2, ('eval::expr::access::array_offset', 'Sub', 'i64'): 2,
    ('eval::ops::duration_to_ticks', 'Div', 'i128'): 1,
    ('runtime::cycle::<impl trust_runtime::runtime::core::Runtime>::collect_ready_tasks', 'Div', 'i64'): 2,
    ('runtime::cycle::<impl trust_runtime::runtime::core::Runtime>::collect_ready_tasks', 'Sub', 'i64'): 1,
    ('stdlib::fbs::timers::Tof::step', 'Add', 'i64'): 1, ('stdlib::fbs::timers::Ton::step', 'Add', 'i64'): 1,
    ('stdlib::fbs::timers::Tp::step', 'Add', 'i64'): 1, ('stdlib::fbs::timers::elapsed_since', 'Sub', 'i64'): 1,
}

# ---- R3 reviewed panic sites
PANIC = re.compile(r'(Option|Result)::<.*>::(unwrap|expect|unwrap_err|expect_err)$|^core::panicking::|^std::rt::begin_panic|'
                   r'^std::process::(exit|abort)$|^core::option::(unwrap_failed|expect_failed)$|^core::result::unwrap_failed$|'
                   r'::copy_from_slice$|::split_at$|::split_at_mut$|^core::slice::index::slice_\w+_fail')
LOCKS = re.compile(r'Mutex::<.*>::lock$|RwLock::<.*>::(read|write)$|Condvar::wait\w*$|Mutex(::)?<.*>::lock$')
R3_REVIEWED = {
    ('memory::VariableStorage::with_frame', 'expect'): 'the frame was pushed two statements earlier in the same function',
    ('eval::ops::numeric_arith', 'panic'): 'unreachable!() under a match on `target` that is exhaustive over the same two real kinds',
    ('<trust_runtime::io::loopback::LoopbackIoDriver as trust_runtime::io::IoDriver>::read_inputs', 'copy_from_slice'): 'both slices cut to len = min(a.len(), b.len())',
    ('<trust_runtime::io::modbus::ModbusTcpDriver as trust_runtime::io::IoDriver>::read_inputs', 'copy_from_slice'): 'both slices cut to len = min(a.len(), b.len())',
    ('<trust_runtime::io::ethercat::EthercatIoDriver as trust_runtime::io::IoDriver>::read_inputs', 'copy_from_slice'): 'both slices cut to copy_len = min(..)',
    ('io::ethercat::EthercrabBus::write_outputs_to_pdi', 'copy_from_slice'): 'both slices cut to copy_len = min(out.len(), outputs.len() - offset)',
    ('io::modbus::ModbusTcpDriver::send_request', 'copy_from_slice'): 'fixed 2-byte header fields filled from u16::to_be_bytes()',
    ('io::modbus::ModbusTcpDriver::write_registers', 'copy_from_slice'): 'payload was extended by byte_count = data.len() zero bytes immediately before',
}

# sites per reviewed key at review time (a further site with the same key was not reviewed)
R3_REVIEWED_COUNT = {('io::modbus::ModbusTcpDriver::send_request', 'copy_from_slice'): 3}


def _short(fid):
    return fid[len(RT):] if fid.startswith(RT) else fid


def run(ctx):
    fx = ctx.fx
    rules_r1(ctx)
    rules_r2(ctx, R2_SCOPE)
    rules_r3(ctx)
    rules_r4(ctx)
    rules_r5(ctx)
    rules_r6(ctx)
    rules_r7(ctx)
    rules_r8(ctx)
    rules_r9(ctx)


def run_thorough(ctx):
    rules_r2(ctx, R2_SCOPE_THOROUGH, rid='C01.R2w', floor=0, strict=False)


# =====================================================================================
def rules_r1(ctx):
    fx = ctx.fx
    r1 = ctx.rule('C01.R1', 'every push_frame is matched by pop_frame on every non-unwinding exit of the function that pushed it', floor=5, floor_what='functions that push a frame')
    ev = call_event(lambda n: PUSH.search(n) is not None, lambda n: POP.search(n) is not None)
    for k in sorted(fx.fns):
        rec = fx.fns[k]
        if not k.startswith(RT):
            continue
        fn = F(rec)
        if not fn.calls(lambda n: PUSH.search(n) is not None):
            continue
        if k.startswith('trust_runtime::memory::'):
            continue   # the storage's own implementation
        r1.saw(len(fn.g))
        bad, states = explore(fn, ev)
        if bad is None:
            r1.bad('state-limit|%s' % _short(k), 'path-sensitive exploration exceeded the state limit', loc=fn.loc(0))
            continue
        if not bad:
            r1.ok('paired|%s' % _short(k), loc=fn.loc(0), detail='%d states explored' % states)
            continue
        for (eb, depth, path) in bad:
            callee, cb = last_fallible_call(fn, path)
            key = 'exit|%s|%s|depth%+d' % (_short(k), (callee or '?').split('::')[-1], depth)
            on_false_branch = False
            se = set(fn.local_of('should_execute'))
            for l_, dl_ in fn.defs.items():      # structurally: a copy of PreparedBindings.should_execute
                for (_b, _k, _rv) in dl_:
                    if _k == 'A' and _rv[0] == 'use' and _rv[1][0] in ('c', 'm') and place_fields(_rv[1][1]) and place_fields(_rv[1][1])[-1].endswith('PreparedBindings.should_execute'):
                        se.add(l_)
            for l in se:
                pos, neg, _ = test_edges(fn, {l: ('bool', True)})
                if any((path[i], path[i + 1]) in neg for i in range(len(path) - 1)):
                    on_false_branch = True
            if (_short(k), callee) in R1_EXCEPT and on_false_branch and depth == 1:
                r1.excepted(key, R1_EXCEPT_REASON, loc=fn.loc(cb if cb is not None else eb))
            else:
                r1.bad(key, 'function can return with %+d call frame(s) outstanding: the exit through the failure of %s leaves the frame pushed' % (depth, callee or 'an early return'),
                       loc=fn.loc(cb if cb is not None else eb), witness={'path_lines': fn.path_lines(path)[-14:], 'states': states})
    # who may call clear_frames
    cf = 'trust_runtime::memory::VariableStorage::clear_frames'
    callers = sorted({a for a, _, _ in ctx.cg.callers(cf)})
    r1.saw(len(callers))
    okc = [c for c in callers if c == RESTART or c.startswith(RESTART + '::{closure')]
    if callers and set(callers) != set(okc):
        r1.bad('who-calls|clear_frames', 'clear_frames is called outside Runtime::restart: %s' % [c for c in callers if c not in okc])
    else:
        r1.ok('who-calls|clear_frames', detail=callers)

    rule_debug_take_restore(ctx, 'C01.R1b')


def rule_debug_take_restore(ctx, rid):
    """a debug hook taken from Runtime.debug is put back on every exit (shared with C17)"""
    fx = ctx.fx
    r1b = ctx.rule(rid, 'Runtime.debug taken with Option::take is re-assigned on every exit', floor=2, floor_what='functions taking the hook')
    take = re.compile(r'Option::<.*>::take$')

    def is_debug_field(f):
        return f.endswith('core::Runtime.debug')
    for k in sorted(fx.fns):
        if not k.startswith('trust_runtime::runtime::'):
            continue
        fn = F(fx.fns[k])
        takes = []
        for b, nm, t in fn.calls(lambda n: take.search(n) is not None):
            oo = operand_origins(fn, t['a'][0])
            if any(o[0] == 'field' and is_debug_field(o[1]) for o in oo):
                takes.append(b)
        if not takes:
            continue
        r1b.saw(len(fn.g))
        tk = set(takes)

        def ev2(fn_, b):
            d = 0
            if b in tk:
                d += 1
            if fn_.assigns_field(b, is_debug_field):
                d -= 1
            return d
        bad, states = explore(fn, ev2, cap=2)
        if bad is None:
            r1b.bad('state-limit|%s' % _short(k), 'exploration exceeded the state limit', loc=fn.loc(0))
        elif not bad:
            r1b.ok('restored|%s' % _short(k), loc=fn.loc(takes[0]))
        else:
            for (eb, depth, path) in bad:
                if depth <= 0:
                    continue
                callee, cb = last_fallible_call(fn, path)
                r1b.bad('exit|%s|%s' % (_short(k), (callee or '?').split('::')[-1]),
                        'the debug hook taken from Runtime.debug is not restored when %s: debugging is silently lost for the rest of the run' % (('%s fails' % callee) if callee else 'the function returns early'),
                        loc=fn.loc(cb if cb is not None else eb), witness={'path_lines': fn.path_lines(path)[-12:]})


# =====================================================================================
def rules_r2(ctx, scope, rid='C01.R2', floor=100, strict=True):
    fx = ctx.fx
    r2 = ctx.rule(rid, 'no unchecked fixed-width arithmetic on program values: every overflow/neg/div-by-zero assert site in the evaluator core is discharged or reviewed',
                  floor=floor, floor_what='arithmetic assert sites')
    forbidden = re.compile(r'core::num::<impl (i|u)(8|16|32|64|128)>::(pow|abs|wrapping_\w+|overflowing_\w+|unchecked_\w+)$')
    seen_reviewed = {}
    for k in sorted(fx.fns):
        if not k.startswith(scope):
            continue
        fn = F(fx.fns[k])
        base = k.split('::{closure')[0]
        for (b, kind, op, ops) in arith.sites(fn):
            r2.saw()
            why = arith.discharge(fn, b, kind, op, ops)
            ty = None
            for o in ops:
                ty = arith.op_type(fn, o) or ty
            if ty is None:
                for o in ops:
                    if o[0] == 'k':
                        ty = o[1]
            key = '%s|%s|%s|%s' % (_short(k), kind, op, ty)
            if why:
                r2.ok(key, loc=fn.loc(b), detail=why)
                continue
            rk = (_short(base), op, ty)
            if rk in R2_REVIEWED:
                seen_reviewed[rk] = seen_reviewed.get(rk, 0) + 1
                if seen_reviewed[rk] <= R2_REVIEWED_COUNT.get(rk, 1):
                    r2.excepted(key, R2_REVIEWED[rk], loc=fn.loc(b))
                    continue
                if strict:
                    r2.bad(key, 'a further unchecked `%s` on %s in %s beyond the %d site(s) that were reviewed for this function: the review argument (%s) was not made for it' % (
                        op, ty, _short(base).split('::')[-1], R2_REVIEWED_COUNT.get(rk, 1), R2_REVIEWED[rk][:80]), loc=fn.loc(b))
                    continue
            what = {'Overflow': 'unchecked `%s` on %s' % (op, ty), 'OverflowNeg': 'unchecked negation on %s' % ty,
                    'DivisionByZero': 'division whose divisor is not tested against zero', 'RemainderByZero': 'remainder whose divisor is not tested against zero'}[kind]
            if strict:
                r2.bad(key, '%s on a program-derived value: panics in debug builds / wraps in release instead of raising a value-dependent fault' % what, loc=fn.loc(b))
            else:
                r2.excepted(key, 'wide-scope inventory (thorough tier): reported for review, not armed', loc=fn.loc(b))
        if strict:
            for b, nm, t in fn.calls(lambda n: forbidden.search(n) is not None):
                r2.saw()
                tainted = any(arith.tainted_by_value(fn, a) for a in t['a'])
                key = '%s|call|%s' % (_short(k), nm.split('::')[-1])
                if tainted:
                    r2.bad(key, 'panicking/wrapping integer helper %s applied to a program-derived value' % nm, loc=fn.loc(b))
                else:
                    r2.ok(key, loc=fn.loc(b), detail='operands not program-derived')


# =====================================================================================
def rules_r3(ctx):
    fx = ctx.fx
    r3 = ctx.rule('C01.R3', 'explicit panic sites in code reachable from Runtime::execute_cycle are a reviewed table', floor=20, floor_what='panic-capable call sites')
    if EXEC_CYCLE not in fx.fns:
        r3.bad('anchor-missing|execute_cycle', 'Runtime::execute_cycle not found')
        return
    seen_r3 = {}
    R = ctx.cg.reach([EXEC_CYCLE])
    r3.note('%d bodies reachable from execute_cycle (%d local)' % (len(R), sum(1 for n in R if n in fx.fns)))
    for n in sorted(R):
        rec = fx.fns.get(n)
        if rec is None or not n.startswith((RT, '<trust_runtime')):
            continue
        fn = F(rec)
        r3.saw()
        for b, nm, t in fn.calls(lambda x: PANIC.search(x) is not None):
            short = nm.split('::')[-1]
            key = '%s|%s' % (_short(n), short)
            # class: lock-poison expect/unwrap
            if short in ('expect', 'unwrap') and t['a']:
                oc = {o[2] for o in operand_origins(fn, t['a'][0]) if o[0] == 'call'}
                if oc and all(LOCKS.search(c) for c in oc):
                    r3.excepted(key, 'lock-poison class: poisoning requires a prior panic while the lock is held, itself a C01 violation', loc=fn.loc(b))
                    continue
                if oc and all(c.startswith('serde_json::value::to_value') or c.startswith('serde_json::to_value') for c in oc) and t.get('x'):
                    r3.excepted(key, 'json! macro expansion: to_value of strings/integers/bools cannot fail', loc=fn.loc(b))
                    continue
                # dominated by is_some/is_ok on the same value
                if _unwrap_guarded(fn, b, t):
                    r3.ok(key, loc=fn.loc(b), detail='dominated by is_some/is_ok true edge')
                    continue
            base = _short(n.split('::{closure')[0])
            if (base, short) in R3_REVIEWED:
                seen_r3[(base, short)] = seen_r3.get((base, short), 0) + 1
                if seen_r3[(base, short)] <= R3_REVIEWED_COUNT.get((base, short), 1):
                    r3.excepted(key, R3_REVIEWED[(base, short)], loc=fn.loc(b))
                    continue
            chain = ctx.cg.chain(EXEC_CYCLE, {n}) or []
            r3.bad(key, 'explicit panic site %s reachable from the scan cycle and not in the reviewed table' % nm, loc=fn.loc(b),
                   witness={'call_chain': chain[:12]})


def _unwrap_guarded(fn, b, t):
    recv = t['a'][0]
    base = recv[1][0] if recv[0] in ('c', 'm') else None
    if base is None:
        return False
    cut = set()
    for cb, nm, ct in fn.calls(lambda n: re.search(r'(Option|Result)::<.*>::(is_some|is_ok)$', n) is not None):
        oo = origins(fn, ct['a'][0][1][0]) if ct['a'][0][0] in ('c', 'm') else set()
        ro = origins(fn, base)
        if oo & ro:
            pos, neg, _ = call_result_edges(fn, cb)
            cut |= pos
    return bool(cut) and guarded(fn, b, cut)


# =====================================================================================
def rules_r4(ctx):
    fx = ctx.fx
    r4 = ctx.rule('C01.R4', 'every interpreter loop that executes a statement block re-checks the execution budget; FOR rejects a zero step', floor=5)
    es = ctx.anchor(r4, 'trust_runtime::eval::stmt::exec_stmt')
    if es is None:
        return
    fn = es
    r4.saw(len(fn.g))
    budget = set(fn.blocks_calling(lambda n: n.endswith('eval::stmt::check_execution_budget')))
    blocks = fn.blocks_calling(lambda n: n.endswith('eval::stmt::exec_block'))
    if not budget:
        r4.bad('budget|entry', 'exec_stmt no longer calls check_execution_budget', loc=fn.loc(0))
        return
    # entry check dominates the dispatch
    first = [b for b in budget if all(fn.dominates(b, x) for x in blocks)]
    if first:
        r4.ok('budget|entry', loc=fn.loc(first[0]))
    else:
        r4.bad('budget|entry', 'no budget check dominates the statement dispatch in exec_stmt', loc=fn.loc(0))
    sccs = fn.sccs()
    n_loops = 0
    for comp in sccs:
        eb = [b for b in comp if b in blocks]
        if not eb:
            continue
        n_loops += 1
        # after removing the budget blocks the exec_block call must no longer be in a cycle
        still = fn.sccs(removed_nodes=budget)
        bad_b = [b for b in eb if any(b in c for c in still)]
        line = min(fn.line(b) for b in eb)
        if bad_b:
            r4.bad('budget|loop', 'a loop around exec_block (line %d) has a cycle that avoids check_execution_budget: the configured execution deadline cannot stop it' % line, loc=fn.loc(bad_b[0]))
        else:
            r4.ok('budget|loop', loc=fn.loc(eb[0]))
    if n_loops < 3:
        r4.bad('budget|loops-found', 'expected the FOR/WHILE/REPEAT loops in exec_stmt, found %d loop(s) around exec_block' % n_loops, loc=fn.loc(0))
    # FOR step zero
    # the step is the second operand of the control-variable increment (checked_add) inside the FOR loop;
    # the source name is only a fallback
    steps = set()
    for comp in sccs:
        if not any(b in blocks for b in comp):
            continue
        for b in comp:
            if re.search(r'::checked_add$', fn.call_name(b) or ''):
                a = fn.term(b)['a']
                if len(a) == 2 and op_local(a[1]) is not None:
                    steps.add(op_local(a[1]))
                    steps |= _copy_sources(fn, op_local(a[1]))
    if not steps:
        steps = set(fn.local_of('step_i'))

    def pred(op, a, c, bb):
        if op not in ('Eq', 'Ne'):
            return None
        la, lc = op_local(a), op_local(c)
        if c[0] == 'k' and re.match(r'(const )?0_i64$', c[2].strip()):
            src = origins(fn, la) if la is not None else set()
            if la in steps or any(la_ in steps for la_ in _copy_sources(fn, la)):
                return op == 'Ne'
        return None
    seeds = compare_seeds(fn, pred)
    pos, neg, _ = test_edges(fn, seeds) if seeds else (set(), set(), [])
    # the FOR loop = the SCC whose blocks reference step_i in a comparison; use: any exec_block call whose loop also tests step_i
    for_blocks = []
    for comp in sccs:
        uses_step = False
        for b in comp:
            for s in fn.bbs[b]['s']:
                if s[0] == 'A' and s[2][0] in ('bin',):
                    for o in (s[2][2], s[2][3]):
                        lo = op_local(o)
                        if lo is not None and (lo in steps or any(x in steps for x in _copy_sources(fn, lo))):
                            uses_step = True
        if uses_step:
            for_blocks = [b for b in comp if b in blocks]
    if not steps or not for_blocks:
        r4.bad('for-step-zero', 'FOR loop shape not recognised (no step_i local or no loop using it)', loc=fn.loc(0))
    elif pos and all(guarded(fn, b, pos) for b in for_blocks):
        r4.ok('for-step-zero', loc=fn.loc(for_blocks[0]))
    else:
        r4.bad('for-step-zero', 'the FOR loop body is reachable without passing the step != 0 test (a zero step never terminates)', loc=fn.loc(for_blocks[0]))
    # exec_block's own statement loop goes through exec_stmt (which checks the budget)
    ebk = fx.fns.get('trust_runtime::eval::stmt::exec_block')
    if ebk is not None:
        f2 = F(ebk)
        r4.saw(len(f2.g))
        st = set(f2.blocks_calling(lambda n: n.endswith('eval::stmt::exec_stmt')))
        loops = [c for c in f2.sccs() if any(f2.term(b)['k'] == 'call' for b in c)]
        # the label-jump loop: every cycle that can repeat must pass exec_stmt
        bad_loop = False
        for comp in f2.sccs(removed_nodes=st):
            # cycles avoiding exec_stmt: allowed only if they are the label-collection iterator loop (contains Iterator::next)
            if not any((f2.call_name(b) or '').endswith('::next') for b in comp):
                bad_loop = True
        if bad_loop:
            r4.bad('exec_block-loop', 'exec_block has a loop that neither iterates the statement slice nor executes a statement (budget is never re-checked)', loc=f2.loc(0))
        else:
            r4.ok('exec_block-loop')


def _copy_sources(fn, l, depth=0):
    out = set()
    if l is None or depth > 4:
        return out
    for (b, k, rv) in fn.defs.get(l, []):
        if k == 'A' and rv[0] == 'use' and rv[1][0] in ('c', 'm') and not rv[1][1][1]:
            out.add(rv[1][1][0])
            out |= _copy_sources(fn, rv[1][1][0], depth + 1)
    return out


# =====================================================================================
def rules_r5(ctx):
    fx = ctx.fx
    r5 = ctx.rule('C01.R5', 'types the checker accepts for a construct are supported by the interpreter (CASE selector)', floor=4, floor_what='type classes')
    # checker side: is_case_selector_type
    chk = [k for k in fx.fns if k.endswith('::is_case_selector_type') and k.startswith('trust_hir::')]
    if not chk:
        r5.bad('anchor-missing|is_case_selector_type', 'checker table not found')
        return
    accepted = set()
    for m in fx.matches_in(chk[0]):
        for arm in m['arms']:
            for p in arm['pats']:
                for v in re.findall(r'trust_hir::types::(?:\w+::)*Type::(\w+)', p):
                    accepted.add(v)
    # interpreter side: the match on the evaluated selector inside exec_stmt's Case arm
    supported = set()
    es = 'trust_runtime::eval::stmt::exec_stmt'
    for m in fx.matches_in(es):
        if not m['sty'].endswith('value::types::Value'):
            continue
        arms = m['arms']
        if any('trust_runtime::error::RuntimeError::CaseSelectorType' in a['refs'] for a in arms):
            for a in arms:
                if 'trust_runtime::error::RuntimeError::CaseSelectorType' in a['refs']:
                    continue
                for p in a['pats']:
                    for v in re.findall(r'value::types::Value::(\w+)', p):
                        supported.add(v)
    r5.saw(len(accepted) + len(supported))
    if not accepted or not supported:
        r5.bad('tables', 'CASE selector tables not recognised (checker %d classes, interpreter %d)' % (len(accepted), len(supported)))
        return
    norm = lambda s: s.lower()
    sup = {norm(s) for s in supported}
    # label side: the Value classes the lowering can turn into an i64 label (const_int_from_node)
    lab = set()
    ci = [k for k in fx.fns if k.endswith('::const_int_from_node')]
    if ci:
        for m in fx.matches_in(ci[0]):
            if m['sty'].endswith('value::types::Value'):
                for a in m['arms']:
                    if any('CompileError::new' in r and 'expected integer constant' in ' '.join(a['refs']) for r in a['refs']) and any(p == 'wild' for p in a['pats']):
                        continue
                    for p in a['pats']:
                        for v in re.findall(r'value::types::Value::(\w+)', p):
                            lab.add(norm(v))
    r5.saw(len(lab))
    loc = '%s:%d' % (fx.fns[es]['file'], fx.fns[es]['line'])
    for a in sorted(accepted):
        if a in ('Some', 'None'):
            continue
        if norm(a) in sup:
            r5.ok('case-selector|%s' % a)
        elif a in R5_REVIEWED:
            r5.excepted('case-selector|%s' % a, R5_REVIEWED[a], loc=loc)
        elif a.startswith('Any'):
            r5.excepted('case-selector|%s' % a, 'generic placeholder class (ANY_*): a run-time value always carries a concrete class, decided by its own row', loc=loc)
        else:
            r5.bad('case-selector|%s' % a, 'the checker accepts a CASE selector of type class %s but the interpreter rejects it at run time with the static-class error CaseSelectorType' % a, loc=loc)
    # every class the label evaluator can produce must be a class the interpreter matches (labels and selector share a type)
    for l in sorted(lab):
        if l in sup:
            r5.ok('case-label-class|%s' % l)
        elif l in ('byte', 'word', 'dword', 'lword'):
            r5.excepted('case-label-class|%s' % l, R5_REVIEWED['Byte'], loc=loc)
        else:
            r5.bad('case-label-class|%s' % l, 'the lowering accepts CASE labels of value class %s but the interpreter has no selector arm for it' % l, loc=loc)


R5_REVIEWED = {
    # probed against the real compiler (NOTES.md, CASE probe): every label form is rejected at compile time for these selector classes,
    # so no accepted program contains a CASE over them
    'Bool': 'label TRUE -> "expected integer constant"; label 1 -> E201 label type must match selector type',
    'Byte': 'bit-string selectors: both 2 and 16#2 labels are rejected with E201', 'Word': 'as Byte', 'DWord': 'as Byte', 'LWord': 'as Byte',
    'Time': 'label T#1s -> "expected integer constant"', 'LTime': 'as Time', 'Date': 'as Time', 'LDate': 'as Time', 'Tod': 'as Time', 'LTod': 'as Time',
    'Dt': 'as Time', 'Ldt': 'as Time',
    'String': "label 'a' -> \"expected integer constant\"", 'WString': 'as String', 'Char': "label 'a' -> E201", 'WChar': 'as Char',
    'Subrange': 'runtime values of a subrange carry the base integer class (DINT (0..10) probed: runs)',
}


# =====================================================================================
def rules_r6(ctx):
    fx = ctx.fx
    r6 = ctx.rule('C01.R6', 'a runtime is built only when there are no parse errors and no error diagnostics for any registered file', floor=2)
    bid = 'trust_runtime::harness::build::build_runtime_from_source_files'
    alt = [k for k in fx.fns if k.endswith('::build_runtime_from_source_files')]
    fn = ctx.anchor(r6, bid, alt=lambda fx_: alt[0] if len(alt) == 1 else None)
    if fn is None:
        return
    r6.saw(len(fn.g))
    news = fn.calls(lambda n: n.endswith('core::Runtime::new') or n.endswith('Runtime::new'))
    empties = fn.calls(lambda n: re.search(r'Vec::<.*>::is_empty$|::is_empty$', n) is not None)
    if not news:
        r6.bad('shape|Runtime::new', 'build function no longer constructs the runtime here (shape not recognised)', loc=fn.loc(0))
        return
    nb = news[0][0]
    gates_found = {}
    for b, nm, t in empties:
        oo = operand_origins(fn, t['a'][0])
        names = set()
        for nme, places in fn.names.items():
            for pl in places:
                if not pl[1] and t['a'][0][0] in ('c', 'm') and (pl[0] == t['a'][0][1][0] or pl[0] in _ref_sources(fn, t['a'][0][1][0])):
                    names.add(nme)
        pos, neg, _ = call_result_edges(fn, b)
        for nme in names:
            gates_found[nme] = (b, pos)
    for want in ('parse_errors', 'diagnostics_errors'):
        cands = [n for n in gates_found if want in n or (want == 'diagnostics_errors' and 'diagnostic' in n)]
        if not cands:
            r6.bad('gate|%s' % want, 'no is_empty() gate on %s before the runtime is built' % want, loc=fn.loc(nb))
            continue
        b, pos = gates_found[cands[0]]
        if guarded(fn, nb, pos):
            r6.ok('gate|%s' % want, loc=fn.loc(b))
        else:
            r6.bad('gate|%s' % want, 'Runtime::new is reachable although %s is not empty' % want, loc=fn.loc(nb),
                   witness={'path_lines': fn.path_lines(unguarded_path(fn, nb, pos))})
    # Diagnostic::is_error is the severity comparison
    ie = [k for k in fx.fns if k.endswith('Diagnostic::is_error') and k.startswith('trust_hir::')]
    if ie:
        f2 = F(fx.fns[ie[0]])
        r6.saw(len(f2.g))
        refs = set()
        for m in fx.matches_in(ie[0]):
            for arm in m['arms']:
                for p in arm['pats']:
                    refs.add(p)
        consts = [s for b in f2.g for s in f2.bbs[b]['s'] if s[0] == 'A']
        txt = repr(fx.matches_in(ie[0])) + repr(consts) + repr(f2.r.get('promoted'))
        if 'Severity::Error' in txt or 'DiagnosticSeverity::Error' in txt or _discr_eq_first_variant(fx, f2):
            r6.ok('is_error-shape', loc=f2.loc(0))
        else:
            r6.bad('is_error-shape', 'Diagnostic::is_error is no longer the Severity::Error test', loc=f2.loc(0))
    # the error filter used by the build calls is_error
    used = False
    for c in [fn.id] + fx.closures_of(fn.id):
        if F(fx.fns[c]).calls(lambda n: n.endswith('Diagnostic::is_error')):
            used = True
    if used:
        r6.ok('filter-uses-is_error')
    else:
        r6.bad('filter-uses-is_error', 'the diagnostics filter in the build function no longer uses Diagnostic::is_error', loc=fn.loc(0))


def _ref_sources(fn, l):
    out = set()
    for (b, k, rv) in fn.defs.get(l, []):
        if k == 'A' and rv[0] == 'ref' and not rv[2][1]:
            out.add(rv[2][0])
        if k == 'A' and rv[0] == 'use' and rv[1][0] in ('c', 'm') and not rv[1][1][1]:
            out.add(rv[1][1][0])
            out |= _ref_sources(fn, rv[1][1][0])
    return out


def _discr_eq_first_variant(fx, f2):
    # `matches!(self.severity, Severity::Error)` lowers to a discriminant switch; accept when the match table names it
    return False


# =====================================================================================
def rules_r7(ctx):
    """The interpreter raises the static-class fault ConditionNotBool (or UndefinedVariable ...) when a condition is
    ill-typed; the compile gate only protects the cycle if the checker looks at *every* condition of a construct."""
    fx = ctx.fx
    r7 = ctx.rule('C01.R7', 'the checker type-checks every condition of IF / ELSIF / WHILE / REPEAT against BOOL (its own condition, taken from its own node)', floor=4, floor_what='condition sites')
    P = "trust_hir::type_check::stmt::<impl trust_hir::type_check::StmtChecker<'a, 'b>>::"
    want = {'check_if_stmt': ['node', 'branch'], 'check_while_stmt': ['node'], 'check_repeat_stmt': ['node']}
    for name, classes in want.items():
        rec = fx.fns.get(P + name)
        if rec is None:
            cands = [k for k in fx.fns if k.endswith('::' + name) and 'type_check' in k]
            rec = fx.fns.get(cands[0]) if cands else None
        if rec is None:
            r7.bad('anchor-missing|%s' % name, 'statement checker %s not found' % name)
            continue
        fn = F(rec)
        found = set()
        cb_blocks = fn.blocks_calling(lambda n: n.endswith('::check_boolean'))
        for b, nm, t in fn.calls(lambda n: n.endswith('first_expression_child') or n.endswith('::last_expression_child')):
            oo = operand_origins(fn, t['a'][0])
            cls = None
            if any(o[0] == 'arg' and o[1] == 2 for o in oo):
                cls = 'node'
            elif any(o[0] == 'call' and o[2].endswith('Iterator>::next') for o in oo):
                cls = 'branch'
            if cls is None:
                continue
            # its Some edge leads to a check_boolean call before anything else is fetched
            pos, neg, _ = call_result_edges(fn, b)
            others = set(fn.blocks_calling(lambda n: n.endswith('first_expression_child'))) - {b}
            if pos and any(cbk in fn.reach([x for (_, x) in pos], avoid=others) for cbk in cb_blocks):
                found.add(cls)
        for cls in classes:
            r7.saw()
            key = 'condition|%s|%s' % (name.replace('check_', '').replace('_stmt', ''), cls)
            if cls in found:
                r7.ok(key, loc=fn.loc(0))
            else:
                what = 'the condition of the statement itself' if cls == 'node' else 'the condition of each ELSIF branch (taken from the branch node)'
                r7.bad(key, '%s does not pass %s through check_boolean: a program with an ill-typed condition there is accepted and the cycle fails with the static-class fault ConditionNotBool / UndefinedVariable' % (name, what), loc=fn.loc(0))


# =====================================================================================
def rules_r8(ctx):
    """The interpreter follows POU calls on the native stack: unbounded recursion in the program would overflow it and
    abort the process.  Every call entry point refuses to go deeper than a constant bound before it pushes anything."""
    fx = ctx.fx
    r8 = ctx.rule('C01.R8', 'POU call nesting is bounded: every call entry point tests call_depth against a constant before pushing a frame or executing the body', floor=3, floor_what='call entry points')
    for name in ('call_function', 'call_method', 'call_function_block'):
        rec = fx.fns.get(RT + 'eval::' + name)
        if rec is None:
            r8.bad('anchor-missing|%s' % name, 'evaluator entry point %s not found' % name)
            continue
        fn = F(rec)
        r8.saw()

        def pred(op, a, c, bb):
            if op not in ('Ge', 'Gt', 'Lt', 'Le'):
                return None
            fa = place_fields(a[1]) if a[0] in ('c', 'm') else []
            la = op_local(a)
            src_fields = list(fa)
            if la is not None:
                for (b_, k_, rv_) in fn.defs.get(la, []):
                    if k_ == 'A' and rv_[0] == 'use' and rv_[1][0] in ('c', 'm'):
                        src_fields += place_fields(rv_[1][1])
            if not any(f.endswith('EvalContext.call_depth') for f in src_fields):
                return None
            if c[0] != 'k':
                return None
            # the local is true when the depth is still allowed?
            return op in ('Lt', 'Le')
        seeds = compare_seeds(fn, pred)
        pos, neg, _ = test_edges(fn, seeds) if seeds else (set(), set(), [])
        sinks = fn.blocks_calling(lambda n: re.search(r'VariableStorage::push_frame\w*$|eval::stmt::exec_block$|eval::prepare_bindings$', n) is not None)
        if pos and sinks and all(guarded(fn, b, pos) for b in sinks):
            r8.ok('depth-gate|%s' % name, loc=fn.loc(sinks[0]))
        else:
            r8.bad('depth-gate|%s' % name, '%s pushes a frame / executes the callee body without first testing the call depth against a bound: a program that recurses (the checker accepts a FUNCTION calling itself) overflows the native stack and aborts the process instead of faulting' % name, loc=fn.loc(sinks[0]) if sinks else fn.loc(0))


# =====================================================================================
def rules_r9(ctx):
    """Constructs the checker accepts must be executable (further rows of the R5 family):
    identifiers are case-insensitive for the checker, so the interpreter must resolve them case-insensitively (or the
    lowering must canonicalise the spelling); MOD on REAL is rejected by the interpreter, so the checker must reject it;
    RETURN is allowed in every POU body, so every body runner must accept it."""
    fx = ctx.fx
    r9 = ctx.rule('C01.R9', 'accepted constructs are executable: identifier case, MOD on REAL, RETURN in every POU body', floor=4)
    # (a) identifier case
    r9.saw()
    canon = re.compile(r'to_ascii_uppercase$|to_ascii_lowercase$|to_uppercase$|to_lowercase$|normalize_name$|canonical')
    low = [k for k in fx.fns if k.startswith(RT + 'harness::lower::expr::')]
    lowered_canon = False
    for k in low:
        fn = F(fx.fns[k])
        for b in fn.g:
            for st in fn.bbs[b]['s']:
                if st[0] == 'A' and st[2][0] == 'agg' and re.search(r'eval::expr::ast::Expr::Name$', str(st[2][1])) and st[2][2]:
                    from ..dep import deps as _deps
                    d = _deps(fn, st[2][2][0])
                    if any(canon.search(c[1]) for c in d.calls):
                        lowered_canon = True
    storage_ci = False
    for name in ('get_local', 'get_global', 'get_instance_var'):
        rec = fx.fns.get(RT + 'memory::VariableStorage::' + name)
        if rec is None:
            continue
        reach = ctx.cg.reach([rec['id']])
        if any(n.endswith('eq_ignore_ascii_case') or canon.search(n) for n in reach):
            storage_ci = True
    if lowered_canon or storage_ci:
        r9.ok('identifier-case', detail='lowering canonicalises' if lowered_canon else 'storage compares case-insensitively')
    else:
        r9.bad('identifier-case', 'the checker resolves identifiers case-insensitively (IEC 61131-3), but the lowering keeps the spelling of each reference (Expr::Name(node_text)) and the interpreter looks variables, fields and named arguments up by exact key: a program that spells a reference differently from the declaration is accepted and faults with UndefinedVariable',
               loc='%s:%d' % (fx.fns[low[0]]['file'], fx.fns[low[0]]['line']) if low else None)
    # (b) MOD on REAL
    r9.saw()
    na = fx.fns.get(RT + 'eval::ops::numeric_arith')
    rt_rejects = False
    if na is not None:
        fn = F(na)
        for b, nm, t in fn.calls(lambda n: False):
            pass
        # the real arm returns TypeMismatch under matches!(op, Mod): a switch on discr(op) with the Mod index leading to an Err(TypeMismatch)
        adt = fx.adts.get('trust_runtime::eval::ops::BinaryOp')
        mod_idx = [i for i, v in enumerate(adt['variants']) if v['name'] == 'Mod'][0] if adt else None
        for b in fn.g:
            t = fn.term(b)
            if t['k'] == 'switch' and mod_idx is not None:
                ex = {int(v): tb for v, tb in t['v']}
                if list(ex) == [mod_idx]:
                    rt_rejects = True
    ck = [k for k in fx.fns if k.startswith('trust_hir::type_check::expr::') and 'infer_binary' in k]
    ck_rejects = False
    from ..util import promoted_variant
    for k in ck:
        rec = fx.fns[k]
        fn = F(rec)
        for b, nm, t in fn.calls(lambda n: re.search(r'type_check::ops::BinaryOp as core::cmp::PartialEq>::eq$', n) is not None):
            var = promoted_variant(rec, fn, t['a'][1]) or promoted_variant(rec, fn, t['a'][0])
            if var != 'Mod':
                continue
            pos, neg, _ = call_result_edges(fn, b)
            errs = fn.blocks_calling(lambda n: n.endswith('DiagnosticBuilder::error') or n.endswith('::error'))
            fl = fn.blocks_calling(lambda n: n.endswith('Type::is_float'))
            if pos and fl and any(guarded(fn, e, pos) for e in errs):
                ck_rejects = True
    if not rt_rejects:
        r9.ok('mod-on-real', detail='the interpreter has no MOD-on-REAL rejection')
    elif ck_rejects:
        r9.ok('mod-on-real', detail='rejected by both')
    else:
        r9.bad('mod-on-real', 'numeric_arith rejects MOD on REAL operands with TypeMismatch, but the checker types it as ordinary arithmetic: `c := a MOD b` with REALs is accepted and faults every cycle', loc='%s:%d' % (fx.fns[ck[0]]['file'], fx.fns[ck[0]]['line']) if ck else None)
    # (c) RETURN accepted by every body runner
    for fid, what in ((RT + 'runtime::cycle::<impl trust_runtime::runtime::core::Runtime>::execute_program', 'execute_program'),
                      (RT + 'eval::call_function_block', 'call_function_block')):
        r9.saw()
        okr = None
        for m in fx.matches_in(fid):
            if not m['sty'].endswith('eval::stmt::StmtResult'):
                continue
            for arm in m['arms']:
                if any('StmtResult::Return' in p for p in arm['pats']):
                    okr = not any(r.endswith('RuntimeError::InvalidControlFlow') for r in arm['refs'])
                elif any(p == 'wild' for p in arm['pats']) and okr is None:
                    okr = not any(r.endswith('RuntimeError::InvalidControlFlow') for r in arm['refs'])
        if okr:
            r9.ok('return-accepted|%s' % what)
        elif okr is None:
            r9.bad('return-accepted|%s' % what, '%s no longer matches on the body result (shape not recognised)' % what)
        else:
            r9.bad('return-accepted|%s' % what, '%s maps StmtResult::Return of the body to InvalidControlFlow: RETURN, which the checker allows in every POU body, faults the cycle' % what)
