"""Fact loading for tprules.

Facts are JSON-lines files written by the tpfacts rustc driver, one per crate
(`<crate>[ _bin]-<pid>.jsonl`).  A pickle is kept next to each file so that the
19 property checks do not each pay the JSON parsing cost.
"""
import glob
import json
import os
import pickle
import collections


class Facts:
    def __init__(self):
        self.fns = {}          # id -> record
        self.matches = []      # HIR match tables
        self.lets = []         # HIR `if let` / `let else` pattern tests
        self.adts = {}         # id -> record
        self.impls = []        # trait impl tables
        self.statics = []
        self.crates = set()
        self.dir = None
        self._m_by_fn = None
        self._l_by_fn = None

    # ---- indexes -------------------------------------------------------
    def matches_in(self, fn_id):
        if self._m_by_fn is None:
            d = collections.defaultdict(list)
            for m in self.matches:
                d[m['fn']].append(m)
            self._m_by_fn = d
        return self._m_by_fn.get(fn_id, [])

    def lets_in(self, fn_id):
        if self._l_by_fn is None:
            d = collections.defaultdict(list)
            for m in self.lets:
                d[m['fn']].append(m)
            self._l_by_fn = d
        return self._l_by_fn.get(fn_id, [])

    def fn(self, fid):
        return self.fns.get(fid)

    def find(self, suffix=None, prefix=None, contains=None):
        out = []
        for k in self.fns:
            if suffix is not None and not k.endswith(suffix):
                continue
            if prefix is not None and not k.startswith(prefix):
                continue
            if contains is not None and contains not in k:
                continue
            out.append(k)
        return sorted(out)

    def closures_of(self, fid):
        """All closure bodies nested (transitively) in fid."""
        pre = fid + '::{closure#'
        return sorted(k for k in self.fns if k.startswith(pre))


def _load_file(path):
    pk = path + '.pkl'
    try:
        if os.path.getmtime(pk) >= os.path.getmtime(path):
            with open(pk, 'rb') as f:
                return pickle.load(f)
    except Exception:
        pass
    recs = []
    with open(path) as f:
        for line in f:
            recs.append(json.loads(line))
    try:
        tmp = pk + '.%d.tmp' % os.getpid()
        with open(tmp, 'wb') as f:
            pickle.dump(recs, f, protocol=pickle.HIGHEST_PROTOCOL)
        os.replace(tmp, pk)
    except Exception:
        pass
    return recs


def load(dirname, crates=None):
    """crates: optional set of crate names (e.g. {'trust_runtime'}); `_bin` crates are
    named `<crate>_bin`."""
    fx = Facts()
    fx.dir = dirname
    for p in sorted(glob.glob(os.path.join(dirname, '*.jsonl'))):
        kr = os.path.basename(p).rsplit('-', 1)[0]
        if crates is not None and kr not in crates:
            continue
        fx.crates.add(kr)
        for o in _load_file(p):
            k = o['k']
            if k == 'fn':
                o['crate'] = kr
                fx.fns[o['id']] = o
            elif k == 'match':
                fx.matches.append(o)
            elif k == 'let':
                fx.lets.append(o)
            elif k == 'adt':
                fx.adts[o['id']] = o
            elif k == 'impl':
                o['crate'] = kr
                fx.impls.append(o)
            elif k == 'static':
                fx.statics.append(o)
    return fx
