"""Rule engine front end: context, rule bookkeeping, known findings, evidence, replay."""
import collections
import importlib
import json
import os
import re
import sys
import time

from . import facts as facts_mod
from . import gen
from .cg import CallGraph
from .cfg import F

VERIF = gen.VERIF
EVIDENCE_DIR = os.path.join(VERIF, 'evidence')
REPLAY_DIR = os.path.join(EVIDENCE_DIR, 'replay')
KNOWN = os.path.join(VERIF, 'known_findings.json')


class Rule:
    def __init__(self, ctx, rid, desc, floor=0, floor_what='instances'):
        self.ctx = ctx
        self.id = rid
        self.desc = desc
        self.floor = floor
        self.floor_what = floor_what
        self.instances = []     # dicts {key, ok, ...}
        self.violations = []    # dicts
        self.constructs = 0     # constructs inspected (measured)
        self.notes = []
        self._ord = collections.Counter()

    def _key(self, key):
        self._ord[key] += 1
        n = self._ord[key]
        return '%s|%s' % (self.id, key) + ('' if n == 1 else '#%d' % n)

    def ok(self, key, loc=None, **info):
        k = self._key(key)
        d = {'key': k, 'ok': True}
        if loc:
            d['loc'] = loc
        d.update(info)
        self.instances.append(d)
        return d

    def bad(self, key, what, loc=None, witness=None, **info):
        k = self._key(key)
        d = {'key': k, 'ok': False, 'what': what}
        if loc:
            d['loc'] = loc
        if witness is not None:
            d['witness'] = witness
        d.update(info)
        self.instances.append(d)
        self.violations.append(d)
        return d

    def excepted(self, key, reason, loc=None, **info):
        """instance that deviates from the rule's shape but is a reviewed exception"""
        k = self._key(key)
        d = {'key': k, 'ok': True, 'excepted': reason}
        if loc:
            d['loc'] = loc
        d.update(info)
        self.instances.append(d)
        return d

    def saw(self, n=1):
        self.constructs += n

    def note(self, s):
        self.notes.append(s)


class Ctx:
    def __init__(self, prop, tier='quick', config='default', facts_path=None, repo=None, log=sys.stderr):
        self.prop = prop
        self.tier = tier
        self.config = config
        self.rules = []
        self.log = log
        self.skip_rules = set()
        self.repo = repo or gen.REPO
        self._facts_path = facts_path
        self._fx = None
        self._fx_crates = None
        self._cg = None
        self.gen_info = {}
        self.assumptions = []

    # facts ---------------------------------------------------------------
    def facts(self, crates=None):
        """Load facts. The first call fixes the crate set (None = all)."""
        if self._fx is not None:
            if crates is None or self._fx_crates is None or set(crates) <= self._fx_crates:
                return self._fx
            # need more crates: reload with union
            crates = None if crates is None else set(crates) | self._fx_crates
        if self._facts_path is None:
            self._facts_path, self.gen_info = gen.facts_dir(self.config, repo=self.repo, log=self.log)
        t = time.time()
        self._fx = facts_mod.load(self._facts_path, crates=set(crates) if crates is not None else None)
        self._fx_crates = set(crates) if crates is not None else None
        self._cg = None
        if os.environ.get('TP_NO_INLINE') != '1':
            from . import inline
            self.inline_info = inline.apply(self._fx, log=self.log)
        print('tprules: loaded %d bodies, %d match tables from %s in %.1fs' % (
            len(self._fx.fns), len(self._fx.matches), sorted(self._fx.crates), time.time() - t), file=self.log)
        return self._fx

    @property
    def fx(self):
        return self.facts()

    @property
    def cg(self):
        if self._cg is None:
            t = time.time()
            self._cg = CallGraph(self.fx)
            print('tprules: call graph: %d nodes with out-edges in %.1fs' % (len(self._cg.out), time.time() - t), file=self.log)
        return self._cg

    def rule(self, rid, desc, floor=0, floor_what='instances'):
        if self.config != 'default':
            # floors are counts confirmed by hand on the default-feature build; another feature
            # configuration legitimately has fewer instances (feature-gated code is absent)
            floor = 0
        r = Rule(self, rid, desc, floor, floor_what)
        if self.config != 'default' and rid in self.skip_rules:
            return r        # needs crates/features this configuration does not contain: not evaluated
        self.rules.append(r)
        return r

    # anchors ---------------------------------------------------------------
    def anchor(self, rule, fid, alt=None):
        """Resolve a function anchor by canonical id, else through `alt(fx)` (structural
        fallback returning an id or None). Missing anchor -> violation (fail closed)."""
        fx = self.fx
        if fid in fx.fns:
            return F(fx.fns[fid])
        if alt is not None:
            got = alt(fx)
            if got and got in fx.fns:
                rule.note('anchor %s resolved structurally to %s' % (fid, got))
                return F(fx.fns[got])
        rule.bad('anchor-missing|%s' % fid, 'anchor function not found (renamed or removed): the rule cannot be evaluated and fails closed')
        return None


def load_known():
    try:
        with open(KNOWN) as f:
            return json.load(f)
    except FileNotFoundError:
        return {'findings': [], 'fixed_log': []}


def _safe(s):
    return re.sub(r'[^A-Za-z0-9_.-]+', '_', s)[:150]


def evaluate_keys(prop, repo, configs=('default',)):
    """violation keys of the property's rules on another checkout (self-tests); prints nothing"""
    mod = importlib.import_module('tprules.rules.%s' % prop)
    keys = set()
    devnull = open(os.devnull, 'w')
    for cfgname in configs:
        ctx = Ctx(prop, 'quick', cfgname, repo=repo, log=devnull)
        ctx.facts(getattr(mod, 'CRATES', None))
        mod.run(ctx)
        for r in ctx.rules:
            if r.floor and len([i for i in r.instances if not i['key'].startswith(r.id + '|anchor-missing')]) < r.floor:
                keys.add(r.id + '|floor')
            for v in r.violations:
                keys.add(v['key'])
    return keys


def run_property(prop, tier='quick', replay=None, facts_path=None, repo=None, write_evidence=True,
                 configs=None, quiet=False):
    """Evaluate the rules of one property. Returns exit code."""
    t0 = time.time()
    seed = int(os.environ.get('VERIF_SEED', '0') or 0)
    mod = importlib.import_module('tprules.rules.%s' % prop)
    configs = configs or (['default'] if tier == 'quick' else getattr(mod, 'THOROUGH_CONFIGS', ['default', 'nodefault']))
    known = load_known()
    open_keys = {(k['property'], k['key']): k for k in known.get('findings', []) if k.get('status') == 'open'}
    all_rules = []
    gen_infos = []
    ctxs = []
    for cfgname in configs:
        ctx = Ctx(prop, tier, cfgname, facts_path=facts_path if cfgname == 'default' else None, repo=repo)
        crates = getattr(mod, 'CRATES', None)
        if cfgname == 'nodefault':
            crates = ['trust_runtime']
            if not getattr(mod, 'NODEFAULT_OK', False):
                continue
        if cfgname != 'default':
            ctx.skip_rules = set(getattr(mod, 'NODEFAULT_SKIP', ()))
        ctx.facts(crates)
        mod.run(ctx)
        if tier == 'thorough' and hasattr(mod, 'run_thorough') and cfgname == 'default':
            mod.run_thorough(ctx)
        for r in ctx.rules:
            r.config = cfgname
        all_rules.extend(ctx.rules)
        gen_infos.append(ctx.gen_info)
        ctxs.append(ctx)
    # floors
    for r in all_rules:
        if r.floor and len([i for i in r.instances if not i['key'].startswith(r.id + '|anchor-missing')]) < r.floor:
            r.bad('floor', 'rule matched %d %s, fewer than the %d confirmed by hand on the pinned tree: it would pass vacuously' % (
                len(r.instances), r.floor_what, r.floor))
    # verdicts
    unlisted, listed = [], []
    seen_v = set()
    for r in all_rules:
        for v in r.violations:
            kk = (prop, v['key'])
            if (kk, getattr(r, 'config', '')) in seen_v:
                continue
            seen_v.add((kk, getattr(r, 'config', '')))
            if kk in open_keys:
                listed.append((r, v, open_keys[kk]))
            else:
                unlisted.append((r, v))
    if replay:
        try:
            with open(replay) as f:
                rp = json.load(f)
        except Exception as e:
            print('cannot read replay file: %s' % e)
            return 2
        key = rp.get('key')
        hit = [(r, v) for (r, v) in unlisted if v['key'] == key] + [(r, v) for (r, v, _) in listed if v['key'] == key]
        if hit:
            r, v = hit[0]
            print('REPLAY: still violated: %s %s' % (v.get('loc', ''), v['what']))
            print('VIOLATION property=%s replay=%s' % (prop, replay))
            return 1
        print('REPLAY: instance %s holds on the current tree' % key)
        return 0

    out = sys.stdout
    if not quiet:
        for r in all_rules:
            held = sum(1 for i in r.instances if i['ok'])
            exc = sum(1 for i in r.instances if i.get('excepted'))
            print('[%s%s] %s: instances=%d held=%d%s violations=%d constructs=%d%s' % (
                r.id, '' if getattr(r, 'config', 'default') == 'default' else '@' + r.config, r.desc,
                len(r.instances), held, (' (excepted=%d)' % exc) if exc else '', len(r.violations), r.constructs,
                (' floor=%d' % r.floor) if r.floor else ''), file=out)
            for n in r.notes:
                print('    note: %s' % n, file=out)
    printed_known = set()
    for r, v, k in listed:
        if v['key'] in printed_known:
            continue
        printed_known.add(v['key'])
        print('KNOWN-FINDING: property=%s %s %s — %s' % (prop, v['key'], v.get('loc', ''), k.get('what', v['what'])), file=out)
    os.makedirs(REPLAY_DIR, exist_ok=True)
    replay_paths = []
    done = set()
    for r, v in unlisted:
        if v['key'] in done:
            continue
        done.add(v['key'])
        rp = os.path.join(REPLAY_DIR, '%s-%s.json' % (prop, _safe(v['key'])))
        if write_evidence:
            with open(rp, 'w') as f:
                json.dump({'property': prop, 'rule': r.id, 'key': v['key'], 'what': v['what'], 'loc': v.get('loc'),
                           'witness': v.get('witness'), 'config': getattr(r, 'config', 'default')}, f, indent=1)
        replay_paths.append(rp)
        print('VIOLATION property=%s replay=%s' % (prop, rp), file=out)
        print('  %s rule=%s instance=%s %s' % (v.get('loc', '?'), r.id, v['key'], v['what']), file=out)
        if v.get('witness') is not None:
            w = json.dumps(v['witness'])
            print('  witness: %s' % (w if len(w) < 600 else w[:600] + '…'), file=out)
    selftest_results = None
    if tier == 'thorough' and not replay and not repo and os.environ.get('TP_NO_SELFTEST') != '1':
        from . import selftest
        base_keys = {v['key'] for r in all_rules for v in r.violations}
        selftest_results = selftest.run(prop, lambda rp: evaluate_keys(prop, rp), base_keys, out=out)
    wall = time.time() - t0
    if write_evidence:
        write_evidence_file(prop, tier, seed, mod, all_rules, unlisted, listed, gen_infos, wall, ctxs, selftest_results)
    print('%s: %d rule(s), %d instance(s), %d unlisted violation(s), %d known finding(s), %.1fs' % (
        prop, len(all_rules), sum(len(r.instances) for r in all_rules), len(done), len(printed_known), wall), file=out)
    return 1 if unlisted else 0


def write_evidence_file(prop, tier, seed, mod, rules, unlisted, listed, gen_infos, wall, ctxs, selftest_results=None):
    os.makedirs(EVIDENCE_DIR, exist_ok=True)
    obligations = sum(len(r.instances) for r in rules)
    discharged = sum(1 for r in rules for i in r.instances if i['ok'])
    constructs = sum(r.constructs for r in rules)
    distinct = len({i['key'] for r in rules for i in r.instances if r.constructs > 0})
    samples = []
    for r in rules:
        for i in r.instances[:2]:
            s = {k: v for k, v in i.items() if k in ('key', 'ok', 'loc', 'what', 'excepted', 'detail')}
            if 'witness' in i:
                w = json.dumps(i['witness'])
                s['witness'] = i['witness'] if len(w) < 800 else w[:800] + '…'
            samples.append(s)
    for r, v in unlisted[:5]:
        samples.append({'key': v['key'], 'ok': False, 'loc': v.get('loc'), 'what': v['what']})
    per_rule = []
    for r in rules:
        per_rule.append({
            'rule': r.id, 'config': getattr(r, 'config', 'default'), 'desc': r.desc, 'instances': len(r.instances),
            'held': sum(1 for i in r.instances if i['ok']), 'excepted': sum(1 for i in r.instances if i.get('excepted')),
            'violations': len(r.violations), 'constructs_inspected': r.constructs, 'floor': r.floor, 'notes': r.notes[:10]})
    fx_stats = {}
    for c in ctxs:
        if c._fx is not None:
            fx_stats[c.config] = {'crates': sorted(c._fx.crates), 'function_bodies': len(c._fx.fns),
                                  'match_tables': len(c._fx.matches), 'adts': len(c._fx.adts)}
    ev = {
        'property_id': prop,
        'tier': tier,
        'seed': seed,
        'level': 'other',
        'coverage': {
            'explanation': getattr(mod, 'EXPLANATION', mod.__doc__ or ''),
            'obligations': obligations,
            'discharged': discharged,
            'evaluations': max(constructs, 1),
            'distinct_nontrivial': distinct,
            'rule': 'static analysis over rustc MIR/HIR facts of /repo\'s current tree; an obligation is one rule instance '
                    '(function, call site, path, or table row); evaluations = constructs inspected by the rules (blocks, call sites, '
                    'table rows, functions) as counted during the run; distinct_nontrivial = distinct instance keys of rules that '
                    'inspected at least one construct',
            'samples': samples[:40],
            'checker_cmd': './check %s --tier %s' % (prop, tier),
            'trusted_base': ['rustc nightly 1.97 MIR/HIR construction and type resolution', 'tpfacts driver (fact printer)',
                             'tprules primitives (CFG, dominators, gates, call graph)', 'documented behaviour of external crates'],
            'per_rule': per_rule,
            'facts': fx_stats,
            'generation': gen_infos,
            'known_findings_reported': sorted({v['key'] for _, v, _ in listed}),
            'virtual_inlining': [{'config': c.config, 'map_err_lowered': (getattr(c, 'inline_info', None) or {}).get('map_err_lowered'),
                                  'new_helpers_inlined': [h for h, n, d in (getattr(c, 'inline_info', None) or {}).get('helpers', [])],
                                  'moved_functions_recognised': [b for b, n in (getattr(c, 'inline_info', None) or {}).get('moved', [])]} for c in ctxs],
            'exhaustive': False,
            **({'selftest': selftest_results} if selftest_results is not None else {}),
        },
        'assumptions': list(getattr(mod, 'ASSUMPTIONS', [])) + [
            'the default-feature, non-test, host-target build is the analysed program (thorough adds --no-default-features for trust-runtime)',
            'a pass means the named structural clauses hold on every path/row inspected, not that the behavioural property holds'],
        'wall_s': round(wall, 2),
        'violations': len({v['key'] for _, v in unlisted}),
    }
    with open(os.path.join(EVIDENCE_DIR, '%s.json' % prop), 'w') as f:
        json.dump(ev, f, indent=1)
