"""Recursion guards: every call-graph cycle over untrusted data must carry a depth bound.

A function f *guards* a cycle when it has an integer parameter p such that
 (a) f compares p with a bound (constant or named const) and every call that re-enters the
     cycle is reachable only through the within-bound edge of that comparison, while the
     out-of-bound edge returns without re-entering; and
 (b) every call in the cycle that targets f passes an argument derived from the caller's own
     depth value by `+ 1` (or a constant at the cycle's entry from outside).
"""
import re
from .cfg import F, op_local
from .gates import compare_seeds, test_edges, guarded
from .prov import operand_origins, origins


def depth_guard(fx, cg, fid, cycle):
    """-> (param index, reason) if fid guards re-entry into `cycle` (set of fn ids), else (None, why)"""
    rec = fx.fns.get(fid)
    if rec is None:
        return None, 'no body'
    fn = F(rec)
    argc = rec['argc']
    int_params = [i for i in range(1, argc + 1) if fn.local_ty(i) in ('usize', 'u32', 'u16', 'u8', 'u64', 'i32', 'i64')]
    if not int_params:
        return None, 'no integer parameter that could carry a depth'
    rec_calls = [(b, nm, t) for b, nm, t in fn.calls(lambda n: n in cycle)]
    if not rec_calls:
        return None, 'no re-entering call'
    for p in int_params:
        def pred(op, a, c, bb, p=p):
            if op not in ('Gt', 'Ge', 'Lt', 'Le'):
                return None
            oa = operand_origins(fn, a)
            oc = operand_origins(fn, c)
            pa = ('arg', p) in oa
            pc = ('arg', p) in oc
            const_c = any(o[0] == 'const' for o in oc) and not pc
            const_a = any(o[0] == 'const' for o in oa) and not pa
            if pa and const_c:
                # p > MAX  / p >= MAX  -> true means out of bound
                return op in ('Lt', 'Le')
            if pc and const_a:
                return op in ('Gt', 'Ge')
            return None
        seeds = compare_seeds(fn, pred)
        if not seeds:
            continue
        pos, neg, _ = test_edges(fn, seeds)    # pos = within bound
        if not pos:
            continue
        if all(guarded(fn, b, pos) for b, _, _ in rec_calls):
            return p, 'parameter %d compared against a bound; all %d re-entering calls behind the within-bound edge' % (p, len(rec_calls))
    return None, 'no bound comparison on an integer parameter dominates the re-entering calls'


def increments_ok(fx, fid, guard_fn, guard_param):
    """every call from fid to guard_fn passes (own depth + 1) or, if fid has no depth of its own, a constant"""
    rec = fx.fns.get(fid)
    if rec is None:
        return True, ''
    fn = F(rec)
    for b, nm, t in fn.calls(lambda n: n == guard_fn):
        if guard_param - 1 >= len(t['a']):
            return False, 'call at line %d passes no depth argument' % fn.line(b)
        oo = operand_origins(fn, t['a'][guard_param - 1])
        if any(o[0] == 'op' and o[1] in ('Add', 'AddWithOverflow') for o in oo):
            continue
        if any(o[0] == 'call' and re.search(r'::(checked_add|saturating_add)$', o[2]) for o in oo):
            continue
        if fid != guard_fn and all(o[0] == 'const' for o in oo):
            continue
        return False, 'call at line %d does not pass depth + 1 (origins %s)' % (fn.line(b), sorted(map(str, oo))[:3])
    return True, ''


def check_cycles(ctx, rule, scope_pred, label):
    """For every call-graph SCC among functions satisfying scope_pred: require a depth guard.
    Reports one instance per SCC keyed by its lexicographically first member."""
    fx, cg = ctx.fx, ctx.cg
    nodes = [k for k in fx.fns if scope_pred(k)]
    comps = cg.sccs(nodes)
    for comp in sorted(comps, key=lambda c: sorted(c)[0]):
        names = sorted(comp)
        key = '%s|%s' % (label, names[0].split('::', 1)[-1])
        rule.saw(len(comp))
        guards = []
        why = []
        for f in names:
            p, r = depth_guard(fx, cg, f, comp)
            if p is not None:
                # callers inside the cycle must increment
                ok = True
                for g in names:
                    o, w = increments_ok(fx, g, f, p)
                    if not o:
                        ok = False
                        why.append('%s: %s' % (g.split('::')[-1], w))
                if ok:
                    guards.append((f, p, r))
            else:
                why.append('%s: %s' % (f.split('::')[-1], r))
        # the guard must cut the cycle: removing guarded functions leaves no cycle
        remaining = set(comp) - {g[0] for g in guards}
        still = cg.sccs(remaining) if remaining else []
        rec = fx.fns[names[0]]
        loc = '%s:%d' % (rec['file'], rec['line'])
        if guards and not still:
            rule.ok(key, loc=loc, detail='guarded by %s' % [g[0].split('::')[-1] for g in guards])
        else:
            cyc = sorted(still[0]) if still else names
            rule.bad(key, 'recursion cycle %s has no depth bound: nesting taken from untrusted data overflows the stack (%s)' % (
                [c.split('::')[-1] for c in cyc][:6], '; '.join(why[:3])), loc=loc)
    return comps
