"""Thorough tier: checker self-test over the kept seeded changes.

Every change kept under /verif/seeded/<id>/ (produced by an independent agent that saw only
the property text) and every self-mutation under /verif/selfmut/<Cxx>-*.diff is applied to a
scratch copy of /repo's *current* sources outside /repo and /verif; the property's rules are
evaluated on that copy and must report at least one violation that the unchanged tree does
not have.  Nothing is executed: the scratch copy is only compiled by the fact driver.  The
result is informational (printed as SELFTEST lines and recorded in the evidence file); it
never changes the exit code of the property check, because a seed that no longer applies or
a missed seed says something about the checker, not about /repo.
"""
import fcntl
import glob
import importlib
import json
import os
import shutil
import subprocess
import sys
import time

from . import gen

SCRATCH = os.environ.get('TP_SCRATCH', '/var/tmp/tpv-selftest')
TOP = ('crates', 'Cargo.toml', 'Cargo.lock', '.cargo', 'rust-toolchain.toml', 'rust-toolchain')


def _copy_tree(dst):
    if os.path.isdir(dst):
        shutil.rmtree(dst)
    os.makedirs(dst)
    for top in TOP:
        src = os.path.join(gen.REPO, top)
        if os.path.isdir(src):
            shutil.copytree(src, os.path.join(dst, top), symlinks=True,
                            ignore=shutil.ignore_patterns('target', '.git', 'node_modules'))
        elif os.path.isfile(src):
            shutil.copy2(src, os.path.join(dst, top))


def _apply(dst, patch):
    r = subprocess.run(['git', 'apply', '--whitespace=nowarn', patch], cwd=dst, stdout=subprocess.PIPE, stderr=subprocess.STDOUT, text=True)
    return r.returncode == 0, r.stdout.strip().splitlines()[-1:] if r.stdout else []


def seeds_for(prop):
    out = []
    expect = {}
    try:
        with open(os.path.join(gen.VERIF, 'seeded', 'STATUS.json')) as f:
            expect = json.load(f)
    except OSError:
        pass
    for d in sorted(glob.glob(os.path.join(gen.VERIF, 'seeded', '%s-*' % prop))):
        if not os.path.isdir(d):
            continue
        name = os.path.basename(d)
        patches = [p for p in (os.path.join(d, 'patch.on-fixed-tree.diff'), os.path.join(d, 'patch.diff')) if os.path.exists(p)]
        out.append((name, patches, expect.get(name, {})))
    for p in sorted(glob.glob(os.path.join(gen.VERIF, 'selfmut', '%s-*.diff' % prop))):
        name = os.path.basename(p)[:-5]
        out.append((name, [p], expect.get(name, {})))
    return out


def run(prop, evaluate, base_keys, log=sys.stderr, out=sys.stdout):
    """evaluate(repo) -> set of violation keys. Returns a list of result records."""
    seeds = seeds_for(prop)
    results = []
    if not seeds:
        return results
    os.makedirs(SCRATCH, exist_ok=True)
    lock = open(os.path.join(SCRATCH, 'lock'), 'w')
    fcntl.flock(lock, fcntl.LOCK_EX)
    dst = os.path.join(SCRATCH, 'repo')
    try:
        for name, patches, exp in seeds:
            t0 = time.time()
            rec = {'seed': name, 'expected': exp.get('expect', 'fires')}
            _copy_tree(dst)
            applied = None
            for p in patches:
                ok, msg = _apply(dst, p)
                if ok:
                    applied = os.path.relpath(p, gen.VERIF)
                    break
            if applied is None:
                rec.update(status='not-applicable', why='patch does not apply to the current tree')
            else:
                rec['patch'] = applied
                try:
                    keys = evaluate(dst)
                    new = sorted(keys - base_keys)
                    rec.update(status='fired' if new else 'missed', new_violations=new[:8])
                except SystemExit:
                    rec.update(status='does-not-build', why='the changed copy does not build under the fact driver')
            rec['wall_s'] = round(time.time() - t0, 1)
            results.append(rec)
            print('SELFTEST property=%s seed=%s %s%s%s' % (prop, name, rec['status'],
                  (' (expected: %s)' % rec['expected']) if rec['status'] in ('missed',) else '',
                  (' ' + '; '.join(rec.get('new_violations', [])[:3])) if rec.get('new_violations') else ''), file=out)
            shutil.rmtree(dst, ignore_errors=True)
    finally:
        shutil.rmtree(dst, ignore_errors=True)
        fcntl.flock(lock, fcntl.LOCK_UN)
        lock.close()
    return results
