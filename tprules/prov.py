"""Local value provenance (part of P6): where can the value in a MIR local come from?

`origins(fn, local)` walks definitions backwards through copies, moves, refs, derefs,
casts, field/downcast projections, `Try::branch` payloads and a small list of
value-preserving std adaptors, and returns the set of roots:
  ('call', bb, callee-name)   result of a call (callee not a pass-through)
  ('arg', n)                  the n-th parameter (1-based MIR local)
  ('const', text)
  ('field', 'Type.field')     read of a struct field of something that is not a local value chain
  ('agg', kind, bb)           aggregate construction
  ('op', opname, bb)          arithmetic / comparison
  ('unknown', why)
"""
import re
from .cfg import F

PASS_THROUGH = re.compile(
    r'Try>::branch$|From<.*>>::from$|From<[^>]*>( for [^>]+)?>::from$|Into<.*>>::into$|Into<[^>]*>( for [^>]+)?>::into$|::clone$|Clone>::clone$|::as_ref$|::as_mut$|::as_deref$|'
    r'Deref>::deref$|DerefMut>::deref_mut$|::as_str$|::as_slice$|::as_path$|::to_owned$|::to_string$|::to_path_buf$|'
    r'::borrow$|::borrow_mut$|Option(?:::)?<.*>::(unwrap|expect|unwrap_or|unwrap_or_default|unwrap_or_else|ok_or|ok_or_else|map_err|copied|cloned|take)$|'
    r'Result(?:::)?<.*>::(unwrap|expect|unwrap_or|unwrap_or_default|unwrap_or_else|ok|map_err)$|Option::<T>::(unwrap|expect|ok_or|ok_or_else|copied|cloned|take|unwrap_or|unwrap_or_default|unwrap_or_else)$|'
    r'Result::<T, E>::(unwrap|expect|ok|map_err|unwrap_or|unwrap_or_default|unwrap_or_else)$|core::hint::must_use$|::into_iter$|::iter$|AsRef<.*>>::as_ref$|::into_boxed_str$|::into_string$')


def origins(fn, local, pass_through=PASS_THROUGH, max_nodes=400, extra_pass=None, through_ops=False):
    fn = F(fn) if isinstance(fn, dict) else fn
    out = set()
    seen = set()
    st = [local]
    argc = fn.r['argc']
    n = 0
    while st:
        l = st.pop()
        if l in seen:
            continue
        seen.add(l)
        n += 1
        if n > max_nodes:
            out.add(('unknown', 'limit'))
            break
        dl = fn.defs.get(l, [])
        if 1 <= l <= argc:
            out.add(('arg', l))
        if not dl and not (1 <= l <= argc):
            out.add(('unknown', 'no-def:%d' % l))
        for (b, k, payload) in dl:
            if k == 'A':
                rv = payload
                kind = rv[0]
                if kind == 'use':
                    _from_op(fn, rv[1], st, out)
                elif kind == 'cast':
                    _from_op(fn, rv[2], st, out)
                elif kind == 'ref':
                    st.append(rv[2][0])
                    fs = [p[1] for p in rv[2][1] if isinstance(p, list) and p[0] == 'f']
                    if fs:
                        out.add(('field', fs[-1]))
                elif kind == 'raw':
                    st.append(rv[1][0])
                elif kind == 'agg':
                    out.add(('agg', rv[1], b))
                    for o in rv[2]:
                        _from_op(fn, o, st, out)
                elif kind == 'bin':
                    out.add(('op', rv[1], b))
                    if through_ops:
                        _from_op(fn, rv[2], st, out)
                        _from_op(fn, rv[3], st, out)
                elif kind == 'un':
                    out.add(('op', rv[1], b))
                    if through_ops:
                        _from_op(fn, rv[2], st, out)
                elif kind == 'discr':
                    out.add(('op', 'discr', b))
                elif kind == 'repeat':
                    _from_op(fn, rv[1], st, out)
                else:
                    out.add(('unknown', kind))
            elif k == 'C':
                t = payload
                f = t['f']
                if 'def' not in f:
                    out.add(('call', b, 'indirect'))
                    continue
                nm = f.get('inst') or f['def']
                if pass_through.search(nm) or pass_through.search(f['def']) or (extra_pass and extra_pass(nm)):
                    if t['a']:
                        _from_op(fn, t['a'][0], st, out)
                    else:
                        out.add(('call', b, nm))
                else:
                    out.add(('call', b, nm))
            elif k == 'P':
                # partial write through a projection: the base keeps its other origins; we note it
                out.add(('partial', b))
    return out


def _from_op(fn, o, st, out):
    if o[0] in ('c', 'm'):
        st.append(o[1][0])
        fs = [p[1] for p in o[1][1] if isinstance(p, list) and p[0] == 'f']
        for f_ in fs:
            out.add(('field', f_))
    elif o[0] == 'k':
        out.add(('const', o[2]))
    else:
        out.add(('unknown', 'operand'))


def call_origins(fn, local, **kw):
    """names of calls among the origins"""
    return {o[2] for o in origins(fn, local, **kw) if o[0] == 'call'}


def operand_origins(fn, o, **kw):
    fn = F(fn) if isinstance(fn, dict) else fn
    if o[0] in ('c', 'm'):
        r = origins(fn, o[1][0], **kw)
        fs = [p[1] for p in o[1][1] if isinstance(p, list) and p[0] == 'f']
        if fs:
            r = set(r) | {('field', fs[-1])}
        return r
    if o[0] == 'k':
        return {('const', o[2])}
    return {('unknown', 'operand')}
