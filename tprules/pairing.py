"""P4 pairing with P5 boolean-flag refinement.

Explores the non-cleanup CFG with states (block, depth, known-flag-values).  Flags are
boolean locals that are only ever assigned boolean constants (source flags such as
`has_frame`/`notify` and rustc's drop flags); a switch on a flag whose value is known
follows only the matching edge, and an unknown flag is learnt on each out edge.
"""
import collections
from .cfg import F, op_local

MAX_STATES = 400000


def const_flags(fn):
    """bool locals whose every definition is a constant true/false assignment"""
    out = set()
    for l, dl in fn.defs.items():
        if fn.r['locals'][l] != 'bool' or not dl:
            continue
        ok = True
        for (b, k, payload) in dl:
            if k != 'A':
                ok = False
                break
            rv = payload
            if not (rv[0] == 'use' and rv[1][0] == 'k' and rv[1][2].replace('const ', '') in ('true', 'false')):
                ok = False
                break
        if ok:
            out.add(l)
    return out


def explore(fn, event, start_depth=0, cap=3, flags=None, stop_at=None):
    """event(fn, bb) -> delta applied when leaving block bb (after its statements and
    terminator). Returns list of (exit_bb, depth, path) for every Return reached with
    depth != 0, plus the number of states explored.  `stop_at`: optional set of blocks at
    which exploration stops (treated as exits and reported with their depth)."""
    fn = F(fn) if isinstance(fn, dict) else fn
    if flags is None:
        flags = const_flags(fn)
    # a switch usually tests a temporary copy made in the same block: `_t = copy flag; switchInt(move _t)`
    alias = {}     # (block) -> flag local tested by its switch
    tested = set()
    for b in fn.g:
        t = fn.term(b)
        if t['k'] == 'switch':
            l = op_local(t['d'])
            if l in flags:
                tested.add(l)
                alias[b] = l
            elif l is not None:
                dl = fn.defs.get(l, [])
                if len(dl) == 1 and dl[0][0] == b and dl[0][1] == 'A' and dl[0][2][0] == 'use':
                    src = op_local(dl[0][2][1])
                    if src in flags:
                        tested.add(src)
                        alias[b] = src
    flags = tested
    start = (0, start_depth, frozenset())
    prev = {start: None}
    work = collections.deque([start])
    bad = []
    n = 0
    seen_exit = set()
    while work:
        st = work.popleft()
        n += 1
        if n > MAX_STATES:
            return None, n   # caller falls back / reports
        b, depth, env = st
        envd = dict(env)
        bb = fn.bbs[b]
        for s in bb['s']:
            if s[0] == 'A' and not s[1][1] and s[1][0] in flags:
                rv = s[2]
                envd[s[1][0]] = (rv[1][2].replace('const ', '') == 'true')
        ev = event(fn, b)
        if isinstance(ev, tuple):
            d2 = ev[1]            # ('set', value): typestate-style events
        else:
            d2 = depth + ev
        d2 = max(min(d2, cap), -cap)
        t = bb['t']
        if t['k'] == 'ret' or (stop_at and b in stop_at):
            if d2 != 0 and (b, d2) not in seen_exit:
                seen_exit.add((b, d2))
                path = []
                x = st
                while x is not None:
                    path.append(x[0])
                    x = prev[x]
                bad.append((b, d2, path[::-1]))
            continue
        succs = fn.g.get(b, [])
        if t['k'] == 'switch':
            l = alias.get(b)
            if l in flags and len(succs) > 1:
                explicit = {int(v): tb for v, tb in t['v']}
                if l in envd:
                    v = 1 if envd[l] else 0
                    tgt = explicit.get(v, t['o'])
                    nxt = [(tgt, envd)]
                else:
                    nxt = []
                    for v in (0, 1):
                        tgt = explicit.get(v, t['o'])
                        e2 = dict(envd)
                        e2[l] = bool(v)
                        nxt.append((tgt, e2))
                for tgt, e2 in nxt:
                    ns = (tgt, d2, frozenset(e2.items()))
                    if ns not in prev:
                        prev[ns] = st
                        work.append(ns)
                continue
        fe = frozenset(envd.items())
        for s in succs:
            ns = (s, d2, fe)
            if ns not in prev:
                prev[ns] = st
                work.append(ns)
    return bad, n


def call_event(acquire, release):
    """event from two callee-name predicates"""
    def ev(fn, b):
        nm = fn.call_name(b)
        if nm is None:
            return 0
        if acquire(nm):
            return 1
        if release(nm):
            return -1
        return 0
    return ev


def last_fallible_call(fn, path):
    """the callee whose failure edge the path takes last: walks the path backwards to the
    last switch that tests a `Try::branch`/Result discriminant and returns the origin call"""
    from .prov import origins
    for i in range(len(path) - 1, 0, -1):
        b = path[i - 1]
        t = fn.term(b)
        if t['k'] != 'switch':
            continue
        l = op_local(t['d'])
        if l is None:
            continue
        dl = fn.defs.get(l, [])
        if len(dl) == 1 and dl[0][1] == 'A' and dl[0][2][0] == 'discr':
            src = dl[0][2][1][0]
            ty = fn.local_ty(src)
            if 'ControlFlow<' in ty or ty.startswith('core::result::Result<'):
                explicit = {int(v): tb for v, tb in t['v']}
                nxt = path[i]
                # failing edge: index 1 (Break / Err)
                if explicit.get(1) == nxt or (1 not in explicit and t['o'] == nxt):
                    cs = sorted(o[2] for o in origins(fn, src) if o[0] == 'call')
                    return cs[0] if cs else '?', b
    return None, None
