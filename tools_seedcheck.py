#!/usr/bin/env python3
"""usage: tools_seedcheck.py <patch.diff> <Cxx> [Cyy ...] -- evaluate a patch on a scratch copy of /repo (does not touch /repo)"""
import os, sys, shutil, subprocess
sys.path.insert(0, os.path.dirname(os.path.abspath(__file__)))
os.environ.setdefault('TP_SCRATCH', '/var/tmp/tpv-seedcheck')
from tprules import selftest, engine
patch = os.path.abspath(sys.argv[1])
dst = os.path.join(selftest.SCRATCH, 'repo-%d' % os.getpid())
os.makedirs(selftest.SCRATCH, exist_ok=True)
selftest._copy_tree(dst)
ok, msg = selftest._apply(dst, patch)
if not ok:
    print('APPLY FAILED', msg); shutil.rmtree(dst, ignore_errors=True); sys.exit(3)
try:
    for prop in sys.argv[2:]:
        base = engine.evaluate_keys(prop, None)
        keys = engine.evaluate_keys(prop, dst)
        new = sorted(keys - base)
        print('%s: %s' % (prop, 'FIRED ' + '; '.join(new[:6]) if new else 'silent'))
finally:
    shutil.rmtree(dst, ignore_errors=True)
